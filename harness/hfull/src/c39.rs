//! C39 — DML on memory tables follows SQL semantics.
//!
//! Histories (≤ 8 statements) of INSERT / UPDATE / DELETE through `SessionContext::sql` against a
//! small multi-partition `MemTable` with NULLs, duplicates and empty batches.  After every
//! statement the harness reads the reported count and the table's *physical layout*
//! (partitions → batches → rows, straight from `MemTable::batches`).
//!
//! Correspondence (equality): the whole history is replayed by the Lean state machine
//! `Sm.MemTable` (batch-wise model of `delete_from_inner` / `update_inner` / `MemSink::write_all`);
//! per statement `count|layout` must be identical.  For INSERT the arrival batching of the sink's
//! input is not determined by SQL, so the observed new batches travel inside the request and the
//! model judges them (bag of new rows = bag the statement must insert) and re-applies the sink's
//! round-robin distribution.
//!
//! Implementation-level oracles (no model): DELETE count = |before| − |after| and after ⊆ before;
//! UPDATE keeps the row count and the bag of the non-assigned columns; INSERT adds exactly `count`
//! rows (for VALUES: exactly the listed rows) and touches no existing batch; a failing statement
//! leaves the table as it was.
//!
//! `VERIF_C39_PROBE=<file>` runs a hand-written scenario on the real code (see notes/C39.md).
use std::collections::BTreeMap;
use std::sync::Arc;

use arrow::array::RecordBatch;
use datafusion::datasource::MemTable;
use datafusion::prelude::{SessionConfig, SessionContext};
use hutil::{Args, Rng, Run};

use crate::qgen_a16::*;

type Layout = Vec<Vec<Vec<Row>>>;

fn layout_sx(l: &Layout) -> String {
    format!("({})", l.iter().map(|p| format!("({})", p.iter().map(|b| rows_sx(b)).collect::<Vec<_>>().join(" "))).collect::<Vec<_>>().join(" "))
}
fn layout_rows(l: &Layout) -> Vec<Row> {
    l.iter().flatten().flatten().cloned().collect()
}
fn bag(rows: &[Row]) -> BTreeMap<Row, i64> {
    let mut m = BTreeMap::new();
    for r in rows {
        *m.entry(r.clone()).or_insert(0) += 1;
    }
    m
}

/// do all stored batches carry exactly the table's column types? (first mismatch)
async fn physical_type_mismatch(mt: &MemTable, t: &TableDef) -> Option<String> {
    let want = t.schema();
    for (pi, p) in mt.batches.iter().enumerate() {
        let g = p.read().await;
        for (bi, b) in g.iter().enumerate() {
            for (ci, f) in want.fields().iter().enumerate() {
                if b.column(ci).data_type() != f.data_type() {
                    return Some(format!("partition {pi} batch {bi} column `{}`: stored {:?}, table schema {:?}", f.name(), b.column(ci).data_type(), f.data_type()));
                }
            }
        }
    }
    None
}

async fn read_layout(mt: &MemTable) -> Layout {
    let mut out = vec![];
    for p in &mt.batches {
        let g = p.read().await;
        out.push(g.iter().map(|b| batch_rows(b).expect("model types")).collect());
    }
    out
}

fn mk_table(t: &TableDef, l: &Layout) -> Arc<MemTable> {
    let parts: Vec<Vec<RecordBatch>> = l.iter().map(|p| p.iter().map(|b| t.batch(b)).collect()).collect();
    Arc::new(MemTable::try_new(t.schema(), parts).unwrap())
}

/// run one statement; Ok(count) or Err(class)
async fn exec(ctx: &SessionContext, sql: &str) -> Result<u64, String> {
    let df = ctx.sql(sql).await.map_err(|e| e.to_string())?;
    let bs = df.collect().await.map_err(|e| e.to_string())?;
    let rows = batches_rows(&bs).ok_or("result outside the model's types")?;
    match rows.as_slice() {
        [r] => match r.as_slice() {
            [V::Int(_, _, n)] => Ok(*n as u64),
            _ => Err(format!("unexpected result row {r:?}")),
        },
        _ => Err(format!("unexpected result shape: {} rows", rows.len())),
    }
}

/// the engine's own reading of a WHERE clause: `SELECT COUNT(*) FROM t WHERE <w>` (None = it fails)
async fn select_count(ctx: &SessionContext, w: &str) -> Option<u64> {
    let df = ctx.sql(&format!("SELECT COUNT(*) FROM t WHERE {w}")).await.ok()?;
    let bs = df.collect().await.ok()?;
    match batches_rows(&bs)?.as_slice() {
        [r] => match r.as_slice() {
            [V::Int(_, _, n)] => Some(*n as u64),
            _ => None,
        },
        _ => None,
    }
}

enum Stmt {
    Delete(Option<X>),
    /// assignments (column index, expression), WHERE
    Update(Vec<(usize, X)>, Option<X>),
    /// rows in table-column order
    InsertValues(Vec<Row>, String),
    /// source table (0 = t itself, 1 = u), one expression per table column, WHERE
    InsertSelect(usize, Vec<X>, Option<X>),
}

impl Stmt {
    fn sql(&self, t: &TableDef) -> String {
        match self {
            Stmt::Delete(w) => format!("DELETE FROM t{}", w.as_ref().map(|w| format!(" WHERE {}", w.sql())).unwrap_or_default()),
            Stmt::Update(asg, w) => format!(
                "UPDATE t SET {}{}",
                asg.iter().map(|(j, e)| format!("{} = {}", t.cols[*j].0, e.sql())).collect::<Vec<_>>().join(", "),
                w.as_ref().map(|w| format!(" WHERE {}", w.sql())).unwrap_or_default()
            ),
            Stmt::InsertValues(_, sql) => sql.clone(),
            Stmt::InsertSelect(src, es, w) => format!(
                "INSERT INTO t SELECT {} FROM {}{}",
                es.iter().enumerate().map(|(i, e)| format!("{} AS i{i}", e.sql())).collect::<Vec<_>>().join(", "),
                if *src == 0 { "t" } else { "u" },
                w.as_ref().map(|w| format!(" WHERE {}", w.sql())).unwrap_or_default()
            ),
        }
    }
    fn kind(&self) -> &'static str {
        match self {
            Stmt::Delete(_) => "delete",
            Stmt::Update(..) => "update",
            Stmt::InsertValues(..) => "insert-values",
            Stmt::InsertSelect(..) => "insert-select",
        }
    }
}
fn opt_sx(w: &Option<X>) -> String {
    format!("({})", w.as_ref().map(|w| w.sx()).unwrap_or_default())
}

/// WHERE clause: a conjunction of 1–3 predicates (the planner splits it into the filter list that
/// `delete_from`/`update` receive); `fallible`: a single strict conjunct that may divide by zero
fn gen_where(rng: &mut Rng, scope: &Scope, fallible: bool) -> Option<X> {
    if rng.chance(1, 8) {
        return None;
    }
    let mut g = ExprGen::new(scope.clone());
    if fallible {
        g.fallible = true;
        return Some(g.gen_expr(rng, Ty::Bool, 2, true));
    }
    // mostly conjuncts that look at the row; a constant conjunct (`false`, `NULL`, `1 = 0` …) only now
    // and then (it is what triggers finding F1, which ends the history)
    let constant_ok = rng.chance(1, 25);
    let has_col = |x: &X| {
        let mut c = false;
        x.walk(&mut |n| {
            if let X::Col(..) = n {
                c = true
            }
        });
        c
    };
    let mut conj = |rng: &mut Rng| {
        let mut e = g.gen_expr(rng, Ty::Bool, 1, true);
        for _ in 0..6 {
            if constant_ok || has_col(&e) {
                break;
            }
            let d = 1 + rng.below(2) as u32;
            e = g.gen_expr(rng, Ty::Bool, d, true);
        }
        e
    };
    let n = 1 + rng.below(3);
    let mut e = conj(rng);
    for _ in 1..n {
        e = X::Bin(Op::And, Box::new(e), Box::new(conj(rng)));
    }
    Some(e)
}

fn gen_stmt(rng: &mut Rng, t: &TableDef, scope: &Scope) -> Stmt {
    let fallible = rng.chance(1, 5);
    match rng.below(10) {
        0 | 1 | 2 => Stmt::Delete(gen_where(rng, scope, fallible)),
        3 | 4 | 5 | 6 => {
            let n = 1 + rng.below(3u64.min(t.cols.len() as u64)) as usize;
            let mut cols: Vec<usize> = (0..t.cols.len()).collect();
            // random subset, random textual order
            for i in 0..cols.len() {
                let j = i + rng.below((cols.len() - i) as u64) as usize;
                cols.swap(i, j);
            }
            cols.truncate(n);
            let mut g = ExprGen::new(scope.clone());
            g.fallible = fallible;
            let asg = cols
                .into_iter()
                .map(|j| {
                    let ty = t.cols[j].1;
                    // mostly expressions over other columns; sometimes the column itself (identity)
                    let d = rng.below(3) as u32;
                    let e = if rng.chance(1, 12) { X::Col(j, t.cols[j].0.clone(), ty) } else { g.gen_expr(rng, ty, d, true) };
                    (j, e)
                })
                .collect();
            Stmt::Update(asg, gen_where(rng, scope, false))
        }
        7 | 8 => {
            let n = rng.below(4) as usize;
            let n = if n == 0 { 1 } else { n };
            // optional column list (subset, permuted): missing columns become NULL
            let mut cols: Vec<usize> = (0..t.cols.len()).collect();
            let with_list = rng.chance(1, 2);
            if with_list {
                for i in 0..cols.len() {
                    let j = i + rng.below((cols.len() - i) as u64) as usize;
                    cols.swap(i, j);
                }
                let keep = 1 + rng.below(cols.len() as u64) as usize;
                cols.truncate(keep);
            }
            let mut rows = vec![];
            let mut tuples = vec![];
            for _ in 0..n {
                let mut r: Row = vec![V::Null; t.cols.len()];
                let mut tup = vec![];
                for &j in &cols {
                    let v = gen_val(rng, t.cols[j].1, 5);
                    tup.push(v.sql(t.cols[j].1));
                    r[j] = v;
                }
                rows.push(r);
                tuples.push(format!("({})", tup.join(", ")));
            }
            let list = if with_list { format!(" ({})", cols.iter().map(|&j| t.cols[j].0.clone()).collect::<Vec<_>>().join(", ")) } else { String::new() };
            Stmt::InsertValues(rows, format!("INSERT INTO t{list} VALUES {}", tuples.join(", ")))
        }
        _ => {
            let mut g = ExprGen::new(scope.clone());
            g.fallible = fallible;
            let es = t
                .cols
                .iter()
                .map(|(_, ty)| {
                    let d = rng.below(2) as u32;
                    g.gen_expr(rng, *ty, d, true)
                })
                .collect();
            Stmt::InsertSelect(rng.below(2) as usize, es, gen_where(rng, scope, false))
        }
    }
}

fn gen_layout(rng: &mut Rng, t: &TableDef, max_parts: u64) -> Layout {
    let np = 1 + rng.below(max_parts) as usize;
    (0..np)
        .map(|_| {
            let nb = rng.below(4) as usize;
            (0..nb)
                .map(|_| {
                    let nr = *rng.pick(&[0usize, 1, 1, 2, 3, 4]);
                    (0..nr).map(|_| gen_row(rng, t, 5)).collect()
                })
                .collect()
        })
        .collect()
}

fn gen_table_def(rng: &mut Rng) -> TableDef {
    let pool = [("a", Ty::I64), ("b", Ty::I64), ("c", Ty::I32), ("s", Ty::Str), ("f", Ty::Bool), ("s2", Ty::Str)];
    let mut cols: Vec<(String, Ty)> = vec![];
    for (n, t) in pool {
        if cols.len() < 2 || rng.chance(2, 3) {
            cols.push((n.to_string(), t));
        }
    }
    // random column order
    for i in 0..cols.len() {
        let j = i + rng.below((cols.len() - i) as u64) as usize;
        cols.swap(i, j);
    }
    TableDef { name: "t".into(), cols }
}

/// the sink's round-robin arrival order reconstructed from the per-partition tails
fn arrival_order(tails: &[Vec<Vec<Row>>]) -> Option<Vec<Vec<Row>>> {
    let n = tails.len();
    let total: usize = tails.iter().map(|t| t.len()).sum();
    let mut out = vec![];
    for j in 0..total {
        let p = j % n;
        out.push(tails[p].get(j / n)?.clone());
    }
    Some(out)
}

async fn history(run: &mut Run, rng: &mut Rng, h: u64) {
    let t = gen_table_def(rng);
    let max_parts = if run.thorough() { 5 } else { 4 };
    let init = gen_layout(rng, &t, max_parts);
    let u_def = TableDef { name: "u".into(), cols: t.cols.clone() };
    let u_layout = gen_layout(rng, &u_def, 2);
    let u_rows = layout_rows(&u_layout);
    let cfg = SessionConfig::new().with_target_partitions(*rng.pick(&[1usize, 2, 4])).with_batch_size(*rng.pick(&[1usize, 2, 8192]));
    let ctx = SessionContext::new_with_config(cfg);
    let mt = mk_table(&t, &init);
    ctx.register_table("t", mt.clone()).unwrap();
    ctx.register_table("u", mk_table(&u_def, &u_layout)).unwrap();
    let scope: Scope = t.cols.iter().enumerate().map(|(i, (n, ty))| (i, n.clone(), *ty)).collect();

    let nst = 1 + rng.below(8) as usize;
    let mut req = format!("({} {} {}", t.cols.len(), rows_sx(&u_rows), layout_sx(&init));
    let mut ans: Vec<String> = vec![];
    let mut kinds = std::collections::BTreeSet::new();
    let mut changed = false;
    let mut sqls: Vec<String> = vec![];
    let mut before = init.clone();
    for k in 0..nst {
        let st = gen_stmt(rng, &t, &scope);
        let sql = st.sql(&t);
        sqls.push(sql.clone());
        let sel = match &st {
            Stmt::Delete(Some(w)) | Stmt::Update(_, Some(w)) => select_count(&ctx, &w.sql()).await,
            _ => None,
        };
        let res = exec(&ctx, &sql).await;
        let after = read_layout(&mt).await;
        let rb = layout_rows(&before);
        let ra = layout_rows(&after);
        let sig = format!("C39 h#{h} stmt#{k} {} :: {}", st.kind(), sql);
        let ctxt = || format!("table {:?} layout before {} ; statements so far: {}", t.cols, layout_sx(&before), sqls.join(" ;; "));
        run.count(st.kind());
        kinds.insert(st.kind());
        if before != after {
            changed = true;
        }
        let head = match &res {
            Ok(n) => n.to_string(),
            Err(m) => {
                let c = err_class(m);
                run.count(&format!("{}:{}", st.kind(), c));
                if c == "err:plan" || c == "err:other" {
                    run.note(&format!("unexpected error for `{sql}`: {}", m.chars().take(300).collect::<String>()));
                    c.to_string()
                } else {
                    "err".to_string()
                }
            }
        };
        if std::env::var("VERIF_DEBUG").is_ok() {
            eprintln!("h#{h} stmt#{k} [{}] {sql}\n      => {:?}", run.n_cases + 1, res.as_ref().map_err(|e| e.replace('\n', " ").chars().take(300).collect::<String>()));
        }
        // ---- implementation-level oracles
        let mut stop = false;
        if res.is_err() {
            // F3: a failing statement must leave the table as it was (the code commits partition by
            // partition; the model follows the code, so the history can go on)
            run.oracle(before == after, &format!("C39 F3 failed-statement-not-atomic {} :: {sql}", st.kind()), &format!("statement failed ({head}) but the table changed: after {} ; {}", layout_sx(&after), ctxt()));
        }
        if let Err(m) = &res {
            if m.contains("__common_expr") {
                // F2: common-subexpression elimination rewrote the DML input plan; the provider is
                // handed expressions over columns that do not exist
                run.oracle(false, &format!("C39 F2 cse-common-expr-breaks-dml {} :: {sql}", st.kind()), &format!("valid statement rejected: {} ; {}", m.replace('\n', " "), ctxt()));
                run.count("finding:F2");
                stop = true;
            }
        }
        if let Err(m) = &res {
            if m.contains("arguments need to have the same data type") {
                // F4: UPDATE of a Utf8 column from an expression whose branches mix Utf8 / Utf8View
                run.oracle(false, &format!("C39 F4 update-string-view-type-mismatch {} :: {sql}", st.kind()), &format!("valid statement rejected: {} ; {}", m.replace('\n', " "), ctxt()));
                run.count("finding:F4");
                stop = true;
            }
        }
        if matches!(st, Stmt::InsertSelect(..) | Stmt::InsertValues(..)) && res.is_ok() {
            // F6: what INSERT stores must have the table's column types
            if let Some(m) = physical_type_mismatch(&mt, &t).await {
                run.oracle(false, &format!("C39 F6 insert-stores-mismatching-physical-type {} :: {sql}", st.kind()), &format!("{m} ; {}", ctxt()));
                run.count("finding:F6");
                stop = true;
            } else {
                run.oracle(true, "", "");
            }
        }
        if let (Some(sel), Ok(n)) = (sel, &res) {
            // the count a DELETE/UPDATE reports = the number of rows the engine's own SELECT finds
            // with the same WHERE
            let all = rb.len() as u64;
            if *n != sel {
                let f1 = sel == 0 && *n == all && all > 0;
                let sg = if f1 { format!("C39 F1 where-never-true-affects-all-rows {} :: {sql}", st.kind()) } else { format!("C39 dml-count-differs-from-select-count {} :: {sql}", st.kind()) };
                run.oracle(false, &sg, &format!("statement reported {n} affected rows, `SELECT COUNT(*) FROM t WHERE …` with the same condition found {sel} of {all}; after {} ; {}", layout_sx(&after), ctxt()));
                if f1 {
                    run.count("finding:F1");
                }
                stop = true;
            } else {
                run.oracle(true, "", "");
            }
        }
        if stop {
            // the table no longer is what SQL semantics says: end this history here (the statements
            // before this one are still compared with the model)
            break;
        }
        match (&st, &res) {
            (Stmt::Delete(_), Ok(n)) => {
                let (bb, ba) = (bag(&rb), bag(&ra));
                let sub = ba.iter().all(|(r, c)| bb.get(r).copied().unwrap_or(0) >= *c);
                run.oracle(sub && rb.len() - ra.len().min(rb.len()) == *n as usize && ra.len() <= rb.len(), &format!("delete-count-or-subbag {sig}"), &format!("reported {n}, rows before {} after {}, after⊆before={sub}; after {} ; {}", rb.len(), ra.len(), layout_sx(&after), ctxt()));
            }
            (Stmt::Update(asg, _), Ok(n)) => {
                let keep: Vec<usize> = (0..t.cols.len()).filter(|j| !asg.iter().any(|(a, _)| a == j)).collect();
                let proj = |rs: &[Row]| bag(&rs.iter().map(|r| keep.iter().map(|&j| r[j].clone()).collect::<Row>()).collect::<Vec<_>>());
                let shape = before.iter().map(|p| p.iter().filter(|b| !b.is_empty()).map(|b| b.len()).collect::<Vec<_>>()).collect::<Vec<_>>();
                let shape_a = after.iter().map(|p| p.iter().map(|b| b.len()).collect::<Vec<_>>()).collect::<Vec<_>>();
                run.oracle(ra.len() == rb.len() && proj(&rb) == proj(&ra) && (*n as usize) <= rb.len() && shape == shape_a, &format!("update-shape-or-untouched-columns {sig}"), &format!("reported {n}; rows before {} after {}; after {} ; {}", rb.len(), ra.len(), layout_sx(&after), ctxt()));
            }
            (Stmt::InsertValues(rows, _), Ok(n)) => {
                let mut want = rb.clone();
                want.extend(rows.iter().cloned());
                run.oracle(bag(&want) == bag(&ra) && *n as usize == rows.len(), &format!("insert-values {sig}"), &format!("reported {n}, expected {} new rows; after {} ; {}", rows.len(), layout_sx(&after), ctxt()));
            }
            (Stmt::InsertSelect(..), Ok(n)) => {
                let (bb, ba) = (bag(&rb), bag(&ra));
                let sup = bb.iter().all(|(r, c)| ba.get(r).copied().unwrap_or(0) >= *c);
                run.oracle(sup && ra.len() == rb.len() + *n as usize, &format!("insert-select-count {sig}"), &format!("reported {n}, rows before {} after {}; after {} ; {}", rb.len(), ra.len(), layout_sx(&after), ctxt()));
            }
            _ => {}
        }
        // ---- request / answer for the model
        match &st {
            Stmt::Delete(w) => req.push_str(&format!(" (delete {})", opt_sx(w))),
            Stmt::Update(asg, w) => req.push_str(&format!(" (update ({}) {})", asg.iter().map(|(j, e)| format!("({j} {})", e.sx())).collect::<Vec<_>>().join(" "), opt_sx(w))),
            Stmt::InsertValues(..) | Stmt::InsertSelect(..) => {
                // observed new batches per partition (existing batches must be untouched)
                let mut tails = vec![];
                let mut prefix_ok = after.len() == before.len();
                if prefix_ok {
                    for (pb, pa) in before.iter().zip(after.iter()) {
                        if pa.len() < pb.len() || pa[..pb.len()] != pb[..] {
                            prefix_ok = false;
                            break;
                        }
                        tails.push(pa[pb.len()..].to_vec());
                    }
                }
                let arr = if prefix_ok { arrival_order(&tails) } else { None };
                run.oracle(arr.is_some(), &format!("insert-touches-existing-or-not-round-robin {sig}"), &format!("after {} ; {}", layout_sx(&after), ctxt()));
                let obs = arr.unwrap_or_default();
                let obs_sx = format!("({})", obs.iter().map(|b| rows_sx(b)).collect::<Vec<_>>().join(" "));
                match &st {
                    Stmt::InsertValues(rows, _) => req.push_str(&format!(" (insert {} {})", rows_sx(rows), obs_sx)),
                    Stmt::InsertSelect(src, es, w) => req.push_str(&format!(" (insert-select {} ({}) {} {})", if *src == 0 { "t" } else { "u" }, es.iter().map(|e| e.sx()).collect::<Vec<_>>().join(" "), opt_sx(w), obs_sx)),
                    _ => unreachable!(),
                }
            }
        }
        let judged = matches!(st, Stmt::InsertValues(..) | Stmt::InsertSelect(..)) && res.is_ok();
        ans.push(format!("{head}{}|{}", if judged { "|ins-ok" } else { "" }, layout_sx(&after)));
        before = after;
    }
    req.push(')');
    let nontrivial = ans.len() >= 3 && kinds.len() >= 2 && changed;
    if !ans.is_empty() {
        run.case("run", &req, &ans.join(" ; "), nontrivial);
    }
    run.add("statements", ans.len() as u64);
}

pub fn run(run: &mut Run, args: &Args) {
    let rt = tokio::runtime::Builder::new_current_thread().enable_all().build().unwrap();
    if let Ok(p) = std::env::var("VERIF_C39_PROBE") {
        rt.block_on(probe(&p));
        return;
    }
    let mut rng = Rng::new(args.seed);
    let n = run.budget(400, 12_000);
    for h in 0..n {
        let mut r = rng.fork();
        rt.block_on(history(run, &mut r, h));
    }
}

/// Scenario file: `col <name> <I64|I32|Str|Bool>` …, then `part` / `batch` / `row v v …`
/// (values: integers, NULL, 'text', true/false), then `sql <statement>` lines.  Prints the reported
/// count and the physical layout after every statement — the tool used to reproduce findings.
async fn probe(path: &str) {
    let txt = std::fs::read_to_string(path).expect("probe file");
    let mut t = TableDef { name: "t".into(), cols: vec![] };
    let mut l: Layout = vec![];
    let mut sqls = vec![];
    let mut tp = 4usize;
    for line in txt.lines() {
        let line = line.trim();
        if line.is_empty() || line.starts_with('#') {
            continue;
        }
        let (k, rest) = line.split_once(' ').unwrap_or((line, ""));
        match k {
            "col" => {
                let (n, ty) = rest.split_once(' ').unwrap();
                let ty = match ty.trim() {
                    "I64" => Ty::I64,
                    "I32" => Ty::I32,
                    "Str" => Ty::Str,
                    _ => Ty::Bool,
                };
                t.cols.push((n.to_string(), ty));
            }
            "target_partitions" => tp = rest.trim().parse().unwrap(),
            "part" => l.push(vec![]),
            "batch" => l.last_mut().unwrap().push(vec![]),
            "row" => {
                let vals: Vec<&str> = rest.split_whitespace().collect();
                let r: Row = vals
                    .iter()
                    .zip(t.cols.iter())
                    .map(|(v, (_, ty))| {
                        if *v == "NULL" {
                            V::Null
                        } else {
                            match ty {
                                Ty::I64 => V::i64(v.parse().unwrap()),
                                Ty::I32 => V::i32(v.parse().unwrap()),
                                Ty::Str => V::Str(v.trim_matches('\'').to_string()),
                                Ty::Bool => V::Bool(*v == "true"),
                            }
                        }
                    })
                    .collect();
                l.last_mut().unwrap().last_mut().unwrap().push(r);
            }
            "sql" => sqls.push(rest.to_string()),
            _ => panic!("bad probe line {line}"),
        }
    }
    let ctx = SessionContext::new_with_config(SessionConfig::new().with_target_partitions(tp));
    let mt = mk_table(&t, &l);
    ctx.register_table("t", mt.clone()).unwrap();
    ctx.register_table("u", mk_table(&TableDef { name: "u".into(), cols: t.cols.clone() }, &l)).unwrap();
    println!("initial   {}", layout_sx(&l));
    for s in sqls {
        let up = s.to_uppercase();
        if !(up.starts_with("INSERT") || up.starts_with("UPDATE") || up.starts_with("DELETE")) {
            match ctx.sql(&s).await {
                Ok(df) => match df.collect().await {
                    Ok(bs) => println!("{s}\n{}", arrow::util::pretty::pretty_format_batches(&bs).unwrap()),
                    Err(e) => println!("{s}\n  => ERROR {e}"),
                },
                Err(e) => println!("{s}\n  => ERROR {e}"),
            }
            continue;
        }
        let r = exec(&ctx, &s).await;
        println!("{s}\n  => {:?}\n  layout {}", r.map_err(|e| e.chars().take(400).collect::<String>()), layout_sx(&read_layout(&mt).await));
    }
}
