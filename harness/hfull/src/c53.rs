//! C53 — reported row-count metrics equal the rows actually produced.
//!
//! Correspondence with the Lean counting model `Mech.Counting` (equality):
//!   (a) `count`  — random poll sequences fed to the real `BaselineMetrics::record_poll`;
//!   (b) `wrap`   — random wrapper trees built from REAL streams that share one
//!                  `ExecutionPlanMetricsSet`: counting wrappers (`record_poll`), `StreamingMerge`,
//!                  a re-batching adapter, `LimitStream`; reported = `MetricsSet::output_rows()`;
//!   (c) `spill`  — random append/finish sequences on a real `InProgressSpillFile`.
//! Implementation-level oracle (no model):
//!   (d) SQL plans over MemTables run to completion under several configurations; for every node
//!       none of whose ancestors can stop early, `metrics().output_rows()` must equal the rows
//!       obtained by executing that sub-plan alone (on a freshly planned copy); the sum of
//!       `spilled_rows` over all nodes must equal the rows decoded from the bytes that were
//!       actually written to spill files (captured by a custom `TempFileFactory`).
use std::io::Write;
use std::pin::Pin;
use std::sync::{Arc, Mutex};
use std::task::{Context, Poll};

use arrow::array::{ArrayRef, Int32Array, Int64Array, RecordBatch, StringArray};
use arrow::datatypes::{DataType, Field, Schema, SchemaRef};
use bytes::Bytes;
use datafusion::datasource::MemTable;
use datafusion::execution::runtime_env::RuntimeEnvBuilder;
use datafusion::prelude::{SessionConfig, SessionContext};
use datafusion_common::{DataFusionError, Result};
use datafusion_execution::disk_manager::{DiskManagerBuilder, DiskManagerMode};
use datafusion_execution::memory_pool::{GreedyMemoryPool, MemoryConsumer, MemoryPool, UnboundedMemoryPool};
use datafusion_execution::spill_file::{SpillFile, SpillWriter, TempFileFactory};
use datafusion_execution::{RecordBatchStream, SendableRecordBatchStream};
use datafusion_physical_expr::expressions::col;
use datafusion_physical_expr::{LexOrdering, PhysicalSortExpr};
use datafusion_physical_plan::limit::LimitStream;
use datafusion_physical_plan::metrics::{BaselineMetrics, ExecutionPlanMetricsSet, MetricValue, SpillMetrics};
use datafusion_physical_plan::sorts::streaming_merge::StreamingMergeBuilder;
use datafusion_physical_plan::stream::RecordBatchStreamAdapter;
use datafusion_physical_plan::{ExecutionPlan, SpillManager, collect_partitioned};
use futures::{Stream, StreamExt};
use hutil::{Args, Rng, Run};

fn x_schema() -> SchemaRef {
    Arc::new(Schema::new(vec![Field::new("x", DataType::Int64, false)]))
}
fn x_batch(n: usize) -> RecordBatch {
    RecordBatch::try_new(x_schema(), vec![Arc::new(Int64Array::from(vec![0i64; n])) as ArrayRef]).unwrap()
}

// ------------------------------------------------------------------ (a) count

fn count_cases(run: &mut Run, rng: &mut Rng) {
    let n = run.budget(1500, 40_000);
    for _ in 0..n {
        let len = rng.below(13) as usize;
        let set = ExecutionPlanMetricsSet::new();
        let bm = BaselineMetrics::new(&set, 0);
        let mut req = vec![];
        let (mut nb, mut nother) = (0, 0);
        for _ in 0..len {
            let poll: Poll<Option<Result<RecordBatch>>> = match rng.below(10) {
                0 | 1 => {
                    req.push("p".to_string());
                    nother += 1;
                    Poll::Pending
                }
                2..=7 => {
                    let r = *rng.pick(&[0usize, 1, 2, 3, 7, 100, 8192]);
                    req.push(format!("(b {r})"));
                    nb += 1;
                    Poll::Ready(Some(Ok(x_batch(r))))
                }
                8 => {
                    req.push("e".to_string());
                    nother += 1;
                    Poll::Ready(Some(Err(DataFusionError::Execution("x".into()))))
                }
                _ => {
                    req.push("d".to_string());
                    nother += 1;
                    Poll::Ready(None)
                }
            };
            let _ = bm.record_poll(poll);
        }
        let ms = set.clone_inner();
        let ended = ms.iter().any(|m| matches!(m.value(), MetricValue::EndTimestamp(t) if t.value().is_some()));
        let ans = format!("{}/{}/{}", bm.output_rows().value(), bm.output_batches().value(), if ended { "t" } else { "f" });
        // aggregated view must agree with the handle
        run.oracle(
            ms.output_rows().unwrap_or(0) == bm.output_rows().value(),
            &format!("count-aggregate ({})", req.join(" ")),
            &format!("MetricsSet::output_rows()={:?} but the counter holds {}", ms.output_rows(), bm.output_rows().value()),
        );
        run.case("count", &format!("({})", req.join(" ")), &ans, nb >= 2 && nother >= 1);
        // keep `bm` alive until after the snapshot (Drop records the end time)
        drop(bm);
    }
}

// ------------------------------------------------------------------ (b) wrap

#[derive(Clone, Debug)]
enum W {
    Src(Vec<usize>),
    Cnt(Box<W>),
    Merge(Vec<W>),
    Rebatch(Box<W>),
    Limit(usize, Box<W>),
}
impl W {
    fn sexp(&self) -> String {
        match self {
            W::Src(v) => format!("(src{})", v.iter().map(|n| format!(" {n}")).collect::<String>()),
            W::Cnt(w) => format!("(cnt {})", w.sexp()),
            W::Merge(ws) => format!("(merge {})", ws.iter().map(|w| w.sexp()).collect::<Vec<_>>().join(" ")),
            W::Rebatch(w) => format!("(rebatch {})", w.sexp()),
            W::Limit(n, w) => format!("(limit {n} {})", w.sexp()),
        }
    }
    fn rows(&self) -> usize {
        match self {
            W::Src(v) => v.iter().sum(),
            W::Cnt(w) | W::Rebatch(w) => w.rows(),
            W::Merge(ws) => ws.iter().map(|w| w.rows()).sum(),
            W::Limit(n, w) => (*n).min(w.rows()),
        }
    }
    fn has_cnt(&self) -> bool {
        match self {
            W::Src(_) => false,
            W::Cnt(_) => true,
            W::Merge(ws) => ws.iter().any(|w| w.has_cnt()),
            W::Rebatch(w) | W::Limit(_, w) => w.has_cnt(),
        }
    }
    fn has_shape(&self) -> bool {
        match self {
            W::Src(_) => false,
            W::Cnt(w) | W::Limit(_, w) => w.has_shape(),
            W::Merge(_) | W::Rebatch(_) => true,
        }
    }
}
fn gen_w(rng: &mut Rng, depth: u32) -> W {
    let leaf = depth == 0 || rng.chance(1, 4);
    if leaf {
        let k = rng.below(4) as usize;
        return W::Src((0..k).map(|_| *rng.pick(&[1usize, 2, 3, 5, 9])).collect());
    }
    match rng.below(10) {
        0..=3 => W::Cnt(Box::new(gen_w(rng, depth - 1))),
        4..=6 => {
            let k = 1 + rng.below(3) as usize;
            W::Merge((0..k).map(|_| gen_w(rng, depth - 1)).collect())
        }
        7 | 8 => W::Rebatch(Box::new(gen_w(rng, depth - 1))),
        _ => {
            let inner = gen_w(rng, depth - 1);
            // a binding limit only above subtrees without counting points (else the model is an
            // upper bound only and answers `unsupported`)
            let n = if inner.has_cnt() && !rng.chance(1, 6) { inner.rows() + rng.below(3) as usize } else { rng.below(inner.rows() as u64 + 2) as usize };
            W::Limit(n, Box::new(inner))
        }
    }
}

struct Counted {
    inner: SendableRecordBatchStream,
    m: BaselineMetrics,
}
impl Stream for Counted {
    type Item = Result<RecordBatch>;
    fn poll_next(mut self: Pin<&mut Self>, cx: &mut Context<'_>) -> Poll<Option<Self::Item>> {
        let p = self.inner.poll_next_unpin(cx);
        self.m.record_poll(p)
    }
}
impl RecordBatchStream for Counted {
    fn schema(&self) -> SchemaRef {
        self.inner.schema()
    }
}

struct Build<'a> {
    node: &'a ExecutionPlanMetricsSet,
    scratch: &'a ExecutionPlanMetricsSet,
    pool: Arc<dyn MemoryPool>,
    next_partition: usize,
}
impl Build<'_> {
    fn build(&mut self, w: &W) -> Result<SendableRecordBatchStream> {
        Ok(match w {
            W::Src(v) => {
                let batches: Vec<Result<RecordBatch>> = v.iter().map(|n| Ok(x_batch(*n))).collect();
                Box::pin(RecordBatchStreamAdapter::new(x_schema(), futures::stream::iter(batches)))
            }
            W::Cnt(inner) => {
                let inner = self.build(inner)?;
                let p = self.next_partition;
                self.next_partition += 1;
                Box::pin(Counted { inner, m: BaselineMetrics::new(self.node, p % 3) })
            }
            W::Merge(ws) => {
                let streams = ws.iter().map(|w| self.build(w)).collect::<Result<Vec<_>>>()?;
                let ordering = LexOrdering::new(vec![PhysicalSortExpr::new_default(col("x", &x_schema())?)]).unwrap();
                StreamingMergeBuilder::new()
                    .with_streams(streams)
                    .with_schema(x_schema())
                    .with_expressions(&ordering)
                    .with_metrics(BaselineMetrics::new(self.scratch, 0))
                    .with_batch_size(4)
                    .with_fetch(None)
                    .with_reservation(MemoryConsumer::new("c53-merge").register(&self.pool))
                    .build()?
            }
            W::Rebatch(inner) => {
                let inner = self.build(inner)?;
                let s = inner.flat_map(|r| {
                    let out: Vec<Result<RecordBatch>> = match r {
                        Ok(b) if b.num_rows() > 1 => vec![Ok(b.slice(0, 1)), Ok(b.slice(1, b.num_rows() - 1))],
                        other => vec![other],
                    };
                    futures::stream::iter(out)
                });
                Box::pin(RecordBatchStreamAdapter::new(x_schema(), s))
            }
            W::Limit(n, inner) => {
                let inner = self.build(inner)?;
                Box::pin(LimitStream::new(inner, 0, Some(*n), BaselineMetrics::new(self.scratch, 0)))
            }
        })
    }
}

async fn wrap_cases(run: &mut Run, rng: &mut Rng) {
    let n = run.budget(600, 15_000);
    for i in 0..n {
        let w = gen_w(rng, 4);
        let node = ExecutionPlanMetricsSet::new();
        let scratch = ExecutionPlanMetricsSet::new();
        let pool: Arc<dyn MemoryPool> = Arc::new(UnboundedMemoryPool::default());
        let mut b = Build { node: &node, scratch: &scratch, pool, next_partition: 0 };
        let res: Result<usize> = async {
            let mut s = b.build(&w)?;
            let mut rows = 0;
            while let Some(r) = s.next().await {
                rows += r?.num_rows();
            }
            Ok(rows)
        }
        .await;
        match res {
            Ok(rows) => {
                let reported = node.clone_inner().output_rows().unwrap_or(0);
                run.count(if w.has_cnt() { "wrap:with-counting-point" } else { "wrap:uncounted" });
                run.oracle(rows == w.rows(), &format!("wrap-rows#{i} {}", w.sexp()), &format!("composition emitted {rows} rows, expected {}", w.rows()));
                run.case("wrap", &w.sexp(), &format!("{reported}/{rows}"), w.has_cnt() && w.has_shape());
            }
            Err(e) => {
                // e.g. a merge over zero streams is rejected by the builder: outside the model
                run.count(&format!("wrap:build-error:{}", e.to_string().chars().take(40).collect::<String>()));
            }
        }
    }
}

// ------------------------------------------------------------------ (c) spill

async fn spill_cases(run: &mut Run, rng: &mut Rng) {
    let n = run.budget(150, 4000);
    for i in 0..n {
        let env = Arc::new(RuntimeEnvBuilder::new().build().unwrap());
        let set = ExecutionPlanMetricsSet::new();
        let sm = SpillManager::new(env, SpillMetrics::new(&set, 0), x_schema());
        let mut f = match sm.create_in_progress_file("c53") {
            Ok(f) => f,
            Err(e) => {
                run.oracle(false, &format!("spill-create#{i}"), &e.to_string());
                continue;
            }
        };
        let len = 1 + rng.below(8);
        let mut req = vec![];
        let mut ans = vec![];
        let (mut appends, mut finishes) = (0, 0);
        let mut file = None;
        for _ in 0..len {
            if rng.chance(3, 4) {
                let r = *rng.pick(&[0usize, 1, 3, 17, 1000]);
                req.push(format!("(a {r} ok)"));
                appends += 1;
                ans.push(if f.append_batch(&x_batch(r)).is_ok() { "ok" } else { "err" }.to_string());
            } else {
                req.push("f".into());
                finishes += 1;
                match f.finish() {
                    Ok(x) => {
                        if x.is_some() {
                            file = x;
                        }
                        ans.push("ok".into())
                    }
                    Err(_) => ans.push("err".into()),
                }
            }
        }
        // make the file readable: finish if still open (not part of the compared history)
        if file.is_none() {
            if let Ok(Some(x)) = f.finish() {
                file = Some(x);
            }
        }
        let mut read_rows = 0usize;
        if let Some(file) = file {
            match sm.read_spill_as_stream(file, None) {
                Ok(mut s) => {
                    while let Some(b) = s.next().await {
                        match b {
                            Ok(b) => read_rows += b.num_rows(),
                            Err(e) => {
                                run.oracle(false, &format!("spill-read#{i} ({})", req.join(" ")), &e.to_string());
                                break;
                            }
                        }
                    }
                }
                Err(e) => run.oracle(false, &format!("spill-read#{i} ({})", req.join(" ")), &e.to_string()),
            }
        }
        let ms = set.clone_inner();
        let spilled = ms.spilled_rows().unwrap_or(0);
        let files = ms.spill_count().unwrap_or(0);
        run.oracle(
            spilled == read_rows,
            &format!("spilled_rows-vs-file#{i} ({})", req.join(" ")),
            &format!("spilled_rows={spilled} but reading the file back yields {read_rows} rows"),
        );
        ans.push(format!("{spilled}/{read_rows}/{files}"));
        run.case("spill", &format!("({})", req.join(" ")), &ans.join(" "), appends >= 2 && finishes >= 1);
    }
}

// ------------------------------------------------------------------ (d) plans

/// in-memory spill files whose bytes stay readable after the engine has dropped them
#[derive(Default)]
struct CaptureFactory {
    files: Mutex<Vec<Arc<Mutex<Vec<u8>>>>>,
}
struct CapFile {
    data: Arc<Mutex<Vec<u8>>>,
}
struct CapWriter {
    data: Arc<Mutex<Vec<u8>>>,
}
impl Write for CapWriter {
    fn write(&mut self, buf: &[u8]) -> std::io::Result<usize> {
        self.data.lock().unwrap().extend_from_slice(buf);
        Ok(buf.len())
    }
    fn flush(&mut self) -> std::io::Result<()> {
        Ok(())
    }
}
impl SpillWriter for CapWriter {
    fn finish(&mut self) -> Result<()> {
        Ok(())
    }
}
impl SpillFile for CapFile {
    fn size(&self) -> Option<u64> {
        Some(self.data.lock().unwrap().len() as u64)
    }
    fn read_stream(&self) -> Result<Pin<Box<dyn Stream<Item = Result<Bytes>> + Send>>> {
        let b = Bytes::from(self.data.lock().unwrap().clone());
        Ok(Box::pin(futures::stream::iter(vec![Ok(b)])))
    }
    fn open_writer(&self) -> Result<Box<dyn SpillWriter>> {
        Ok(Box::new(CapWriter { data: Arc::clone(&self.data) }))
    }
}
impl TempFileFactory for CaptureFactory {
    fn create_temp_file(&self, _description: &str) -> Result<Arc<dyn SpillFile>> {
        let data = Arc::new(Mutex::new(Vec::new()));
        self.files.lock().unwrap().push(Arc::clone(&data));
        Ok(Arc::new(CapFile { data }))
    }
}
impl CaptureFactory {
    /// rows of every batch in every spill file ever written (IPC stream format)
    fn rows_written(&self) -> std::result::Result<(usize, usize), String> {
        let mut rows = 0;
        let mut nfiles = 0;
        for f in self.files.lock().unwrap().iter() {
            let bytes = f.lock().unwrap().clone();
            if bytes.is_empty() {
                continue;
            }
            nfiles += 1;
            let rd = arrow::ipc::reader::StreamReader::try_new(std::io::Cursor::new(bytes), None).map_err(|e| e.to_string())?;
            for b in rd {
                rows += b.map_err(|e| e.to_string())?.num_rows();
            }
        }
        Ok((rows, nfiles))
    }
}

fn make_tables(rng: &mut Rng) -> Vec<(&'static str, Arc<MemTable>)> {
    let mut out = vec![];
    // t1(a, b, c): duplicates and NULLs; t2(a, d); big(k, s) for spilling sorts
    let s1 = Arc::new(Schema::new(vec![Field::new("a", DataType::Int32, true), Field::new("b", DataType::Int32, true), Field::new("c", DataType::Utf8, true)]));
    let mk1 = |rng: &mut Rng, n: usize| {
        let a: Int32Array = (0..n).map(|_| if rng.chance(1, 8) { None } else { Some(rng.range(0, 6) as i32) }).collect();
        let b: Int32Array = (0..n).map(|_| if rng.chance(1, 10) { None } else { Some(rng.range(-5, 30) as i32) }).collect();
        let c: StringArray = (0..n).map(|_| if rng.chance(1, 6) { None } else { Some(format!("s{}", rng.below(4))) }).collect();
        RecordBatch::try_new(s1.clone(), vec![Arc::new(a) as ArrayRef, Arc::new(b), Arc::new(c)]).unwrap()
    };
    let parts1: Vec<Vec<RecordBatch>> = (0..3).map(|p| (0..(1 + p)).map(|_| { let n = 5 + rng.below(9) as usize; mk1(rng, n) }).collect()).collect();
    out.push(("t1", Arc::new(MemTable::try_new(s1.clone(), parts1).unwrap())));
    let s2 = Arc::new(Schema::new(vec![Field::new("a", DataType::Int32, true), Field::new("d", DataType::Int32, false)]));
    let mk2 = |rng: &mut Rng, n: usize| {
        let a: Int32Array = (0..n).map(|_| if rng.chance(1, 8) { None } else { Some(rng.range(2, 9) as i32) }).collect();
        let d: Int32Array = (0..n).map(|_| Some(rng.range(0, 100) as i32)).collect();
        RecordBatch::try_new(s2.clone(), vec![Arc::new(a) as ArrayRef, Arc::new(d)]).unwrap()
    };
    let parts2: Vec<Vec<RecordBatch>> = (0..2).map(|_| (0..2).map(|_| { let n = 4 + rng.below(6) as usize; mk2(rng, n) }).collect()).collect();
    out.push(("t2", Arc::new(MemTable::try_new(s2.clone(), parts2).unwrap())));
    let s3 = Arc::new(Schema::new(vec![Field::new("k", DataType::Int64, false), Field::new("s", DataType::Utf8, false)]));
    let mk3 = |rng: &mut Rng, n: usize| {
        let k: Int64Array = (0..n).map(|_| Some(rng.range(0, 1_000_000))).collect();
        let s: StringArray = (0..n).map(|_| Some(format!("{:040}", rng.below(1000)))).collect();
        RecordBatch::try_new(s3.clone(), vec![Arc::new(k) as ArrayRef, Arc::new(s)]).unwrap()
    };
    let parts3: Vec<Vec<RecordBatch>> = (0..2).map(|_| (0..4).map(|_| mk3(rng, 500)).collect()).collect();
    out.push(("big", Arc::new(MemTable::try_new(s3.clone(), parts3).unwrap())));
    out
}

fn queries(rng: &mut Rng) -> Vec<String> {
    let p = rng.range(-2, 12);
    let k = 1 + rng.below(7);
    vec![
        format!("SELECT a, b FROM t1 WHERE b > {p}"),
        "SELECT a, count(*), sum(b) FROM t1 GROUP BY a".into(),
        "SELECT c, min(b), max(b) FROM t1 GROUP BY c ORDER BY c".into(),
        "SELECT t1.a, t2.d FROM t1 JOIN t2 ON t1.a = t2.a".into(),
        format!("SELECT t1.a, t2.d FROM t1 LEFT JOIN t2 ON t1.a = t2.a AND t2.d > {p}"),
        "SELECT t1.b, t2.d FROM t1 RIGHT JOIN t2 ON t1.a = t2.a".into(),
        "SELECT t1.b, t2.d FROM t1 FULL JOIN t2 ON t1.a = t2.a".into(),
        "SELECT a, b FROM t1 WHERE a IN (SELECT a FROM t2)".into(),
        "SELECT a, b FROM t1 WHERE NOT EXISTS (SELECT 1 FROM t2 WHERE t2.a = t1.a)".into(),
        "SELECT a, b, c FROM t1 ORDER BY b, a, c".into(),
        format!("SELECT a, b FROM t1 ORDER BY b LIMIT {k}"),
        format!("SELECT a FROM t1 LIMIT {k}"),
        "SELECT a FROM t1 UNION ALL SELECT a FROM t2".into(),
        "SELECT a FROM t1 UNION SELECT a FROM t2".into(),
        "SELECT DISTINCT a, c FROM t1".into(),
        "SELECT a, b, row_number() OVER (PARTITION BY a ORDER BY b) FROM t1".into(),
        "SELECT a, sum(b) OVER (ORDER BY b ROWS BETWEEN 1 PRECEDING AND CURRENT ROW) FROM t1".into(),
        format!("SELECT t1.a, t2.a FROM t1, t2 WHERE t1.b < t2.d AND t2.d < {}", 20 + p),
        "SELECT a, cnt FROM (SELECT a, count(*) AS cnt FROM t1 GROUP BY a) WHERE cnt > 1".into(),
        "SELECT t1.c, count(DISTINCT t2.d) FROM t1 JOIN t2 ON t1.a = t2.a GROUP BY t1.c".into(),
        "SELECT k, s FROM big ORDER BY s, k".into(),
        "SELECT s, count(*) FROM big GROUP BY s".into(),
        format!("SELECT k FROM big WHERE k % 7 = {} ORDER BY k", k % 7),
    ]
}

#[derive(Clone, Copy, Debug)]
struct Cfg {
    partitions: usize,
    batch_size: usize,
    mem_limit: Option<usize>,
}

fn make_ctx(cfg: Cfg, tables: &[(&'static str, Arc<MemTable>)], factory: Arc<CaptureFactory>) -> SessionContext {
    let mut sc = SessionConfig::new().with_target_partitions(cfg.partitions).with_batch_size(cfg.batch_size);
    let mut rb = RuntimeEnvBuilder::new().with_disk_manager_builder(DiskManagerBuilder::default().with_mode(DiskManagerMode::Custom(factory)));
    if let Some(l) = cfg.mem_limit {
        rb = rb.with_memory_pool(Arc::new(GreedyMemoryPool::new(l)));
        sc = sc.with_sort_spill_reservation_bytes(1024).with_sort_in_place_threshold_bytes(1024);
    }
    let ctx = SessionContext::new_with_config_rt(sc, Arc::new(rb.build().unwrap()));
    for (n, t) in tables {
        ctx.register_table(*n, t.clone()).unwrap();
    }
    ctx
}

fn preorder(plan: &Arc<dyn ExecutionPlan>, out: &mut Vec<(Arc<dyn ExecutionPlan>, usize)>, parent: usize) {
    let me = out.len();
    out.push((Arc::clone(plan), parent));
    for c in plan.children() {
        preorder(c, out, me);
    }
}

async fn plan_oracle(run: &mut Run, rng: &mut Rng) {
    let rounds = run.budget(4, 60);
    for round in 0..rounds {
        let tables = make_tables(rng);
        let qs = queries(rng);
        for (qi, q) in qs.iter().enumerate() {
            let ncfg = if q.contains("big") { 5 } else if run.thorough() { 3 } else { 2 };
            for _ in 0..ncfg {
                let cfg = Cfg {
                    partitions: *rng.pick(&[1usize, 4]),
                    batch_size: *rng.pick(&[3usize, 8192]),
                    mem_limit: if q.contains("big") && rng.chance(3, 4) { Some(*rng.pick(&[80_000usize, 120_000, 200_000, 400_000])) } else { None },
                };
                let factory = Arc::new(CaptureFactory::default());
                let ctx = make_ctx(cfg, &tables, Arc::clone(&factory));
                let tag = format!("round={round} q{qi} cfg={cfg:?} sql={q}");
                let plan = match async { ctx.sql(q).await?.create_physical_plan().await }.await {
                    Ok(p) => p,
                    Err(e) => {
                        run.count("plan:planning-error");
                        run.note(&format!("planning failed ({tag}): {e}"));
                        continue;
                    }
                };
                let total_rows = match collect_partitioned(Arc::clone(&plan), ctx.task_ctx()).await {
                    Ok(b) => b.iter().flatten().map(|b| b.num_rows()).sum::<usize>(),
                    Err(e) => {
                        let m = e.to_string();
                        run.count(if m.contains("Resources exhausted") { "plan:resources-exhausted" } else { "plan:exec-error" });
                        run.count(&format!("plan:failed:q{qi}:{:?}", cfg.mem_limit));
                        continue;
                    }
                };
                run.count("plan:executed");
                let mut nodes = vec![];
                preorder(&plan, &mut nodes, usize::MAX);
                let reported: Vec<Option<usize>> = nodes.iter().map(|(n, _)| n.metrics().and_then(|m| m.output_rows())).collect();
                // ---- spilled rows vs bytes written
                let spilled: usize = nodes.iter().map(|(n, _)| n.metrics().and_then(|m| m.spilled_rows()).unwrap_or(0)).sum();
                match factory.rows_written() {
                    Ok((written, nfiles)) => {
                        if nfiles > 0 {
                            run.count("plan:spilled");
                            run.count(&format!("plan:spilled:q{qi}:{:?}", cfg.mem_limit));
                            run.add("spill:rows-written", written as u64);
                        }
                        run.oracle(
                            spilled == written,
                            &format!("spilled_rows-vs-written {tag}"),
                            &format!("sum of spilled_rows over the plan = {spilled}, rows decoded from the {nfiles} spill files written = {written}"),
                        );
                    }
                    Err(e) => run.oracle(false, &format!("spill-decode {tag}"), &e),
                }
                // ---- root
                run.oracle(
                    reported[0].is_none() || reported[0] == Some(total_rows),
                    &format!("root-output_rows {} {tag}", nodes[0].0.name()),
                    &format!("root {} reports {:?} rows, the query returned {total_rows}", nodes[0].0.name(), reported[0]),
                );
                // ---- eligibility: no ancestor that can stop pulling early
                let mut eligible = vec![true; nodes.len()];
                for i in 1..nodes.len() {
                    let p = nodes[i].1;
                    let pn = &nodes[p].0;
                    let stops_early = pn.fetch().is_some() || pn.name().contains("Limit");
                    // a join whose other input is empty does not read this input to the end
                    let join_with_empty_side = pn.name().contains("Join") && pn.children().iter().any(|c| c.metrics().and_then(|m| m.output_rows()) == Some(0));
                    eligible[i] = eligible[p] && !stops_early && !join_with_empty_side;
                }
                // under a memory limit the number of rows a PARTIAL aggregation emits depends on the
                // memory pressure at that moment (early emission), which differs when the sub-plan
                // runs alone: node-by-node comparison only without a limit
                let upto = if cfg.mem_limit.is_some() { 0 } else { nodes.len() };
                for i in 1..upto {
                    let name = nodes[i].0.name().to_string();
                    if !eligible[i] {
                        run.count("node:skipped-ancestor-may-stop-early");
                        continue;
                    }
                    let Some(rep) = reported[i] else {
                        run.count(&format!("node:no-output_rows-metric:{name}"));
                        continue;
                    };
                    // execute the same sub-plan alone, on a freshly planned copy
                    let f2 = Arc::new(CaptureFactory::default());
                    let ctx2 = make_ctx(cfg, &tables, f2);
                    let fresh = match async { ctx2.sql(q).await?.create_physical_plan().await }.await {
                        Ok(p) => p,
                        Err(_) => continue,
                    };
                    let mut nodes2 = vec![];
                    preorder(&fresh, &mut nodes2, usize::MAX);
                    if nodes2.len() != nodes.len() || nodes2[i].0.name() != name {
                        run.count("node:replan-shape-differs");
                        continue;
                    }
                    match collect_partitioned(Arc::clone(&nodes2[i].0), ctx2.task_ctx()).await {
                        Ok(b) => {
                            let alone: usize = b.iter().flatten().map(|b| b.num_rows()).sum();
                            run.count(&format!("node:compared:{name}"));
                            run.oracle(
                                rep == alone,
                                &format!("node-output_rows {name} #{i} {tag}"),
                                &format!("node #{i} {name} reported output_rows={rep} after the full run; executing that sub-plan alone yields {alone} rows"),
                            );
                        }
                        Err(e) => {
                            let m = e.to_string();
                            run.count(if m.contains("Resources exhausted") { "node:alone-resources-exhausted" } else { "node:alone-exec-error" });
                        }
                    }
                }
            }
        }
    }
}

pub fn run(run: &mut Run, args: &Args) {
    hutil::quiet_panics();
    let mut rng = Rng::new(args.seed);
    count_cases(run, &mut rng);
    let rt = tokio::runtime::Builder::new_current_thread().enable_all().build().unwrap();
    rt.block_on(async {
        wrap_cases(run, &mut rng).await;
        spill_cases(run, &mut rng).await;
        plan_oracle(run, &mut rng).await;
    });
}
