//! C44 — files with a differing schema are read faithfully into the table schema.
//!
//! (A) direct: `BatchAdapterFactory` / `DefaultPhysicalExprAdapter` on generated (file schema,
//!     table schema, rows, predicate): per ROW equality with the Lean model (`adapt`, `filter`), and
//!     implementation-level oracles: whole batch == rows; `eval(rewrite(f), file row) ==
//!     eval(f, adapted row)` (value for value, failure for failure).
//! (B) end to end: a `ListingTable` with an explicit schema over 2–3 Parquet files of different
//!     schemas written in-process; `SELECT *` and `SELECT * WHERE f` with filter pushdown on;
//!     oracle: the rows returned == the directly adapted rows of all files (filtered by `f`).
use std::collections::BTreeSet;
use std::sync::Arc;

use arrow::array::*;
use arrow::datatypes::*;
use datafusion::datasource::listing::{ListingOptions, ListingTable, ListingTableConfig, ListingTableUrl};
use datafusion::datasource::file_format::parquet::ParquetFormat;
use datafusion::physical_expr_adapter::{BatchAdapterFactory, DefaultPhysicalExprAdapter, PhysicalExprAdapter};
use datafusion::prelude::{SessionConfig, SessionContext};
use datafusion_common::ScalarValue;
use datafusion_expr::Operator;
use datafusion_physical_expr::PhysicalExpr;
use datafusion_physical_expr::expressions::{binary, col, is_null, lit, not};
use hutil::{Args, Rng, Run, hex};

static GUARD: std::sync::atomic::AtomicUsize = std::sync::atomic::AtomicUsize::new(0);

fn guarded<T>(f: impl FnOnce() -> Result<T, String>) -> Result<T, String> {
    use std::sync::atomic::Ordering::SeqCst;
    GUARD.fetch_add(1, SeqCst);
    let r = hutil::catch(std::panic::AssertUnwindSafe(f));
    GUARD.fetch_sub(1, SeqCst);
    match r {
        Ok(r) => r,
        Err(p) => Err(format!("panic: {p}")),
    }
}

fn ty_sexp(dt: &DataType) -> String {
    match dt {
        DataType::Int8 => "i8".into(),
        DataType::Int16 => "i16".into(),
        DataType::Int32 => "i32".into(),
        DataType::Int64 => "i64".into(),
        DataType::UInt8 => "u8".into(),
        DataType::UInt16 => "u16".into(),
        DataType::UInt32 => "u32".into(),
        DataType::UInt64 => "u64".into(),
        DataType::Utf8 => "utf8".into(),
        DataType::LargeUtf8 => "lutf8".into(),
        DataType::Utf8View => "utf8v".into(),
        DataType::Date32 => "date32".into(),
        DataType::Date64 => "date64".into(),
        other => panic!("type outside the generator: {other}"),
    }
}

fn val_sexp(s: &ScalarValue) -> String {
    use ScalarValue::*;
    fn o<T: ToString>(v: &Option<T>) -> String {
        v.as_ref().map(|x| x.to_string()).unwrap_or_else(|| "null".into())
    }
    match s {
        Int8(v) => o(v),
        Int16(v) => o(v),
        Int32(v) | Date32(v) => o(v),
        Int64(v) | Date64(v) => o(v),
        UInt8(v) => o(v),
        UInt16(v) => o(v),
        UInt32(v) => o(v),
        UInt64(v) => o(v),
        Utf8(v) | LargeUtf8(v) | Utf8View(v) => v.as_ref().map(|x| hex(x.as_bytes())).unwrap_or_else(|| "null".into()),
        Boolean(v) => match v {
            None => "null".into(),
            Some(true) => "t".into(),
            Some(false) => "f".into(),
        },
        other => format!("?{other:?}"),
    }
}

const INTS: [DataType; 6] = [DataType::Int8, DataType::Int16, DataType::Int32, DataType::Int64, DataType::UInt8, DataType::UInt32];
const STRS: [DataType; 3] = [DataType::Utf8, DataType::LargeUtf8, DataType::Utf8View];
const DATES: [DataType; 2] = [DataType::Date32, DataType::Date64];

fn is_str(dt: &DataType) -> bool {
    matches!(dt, DataType::Utf8 | DataType::LargeUtf8 | DataType::Utf8View)
}
fn is_date(dt: &DataType) -> bool {
    matches!(dt, DataType::Date32 | DataType::Date64)
}

fn gen_table_type(rng: &mut Rng) -> DataType {
    match rng.below(10) {
        0..=4 => rng.pick(&INTS).clone(),
        5..=7 => rng.pick(&STRS).clone(),
        _ => rng.pick(&DATES).clone(),
    }
}

/// a file type castable to the table type within the modelled lattice
fn gen_file_type(rng: &mut Rng, table: &DataType) -> DataType {
    if rng.chance(1, 3) {
        return table.clone();
    }
    if is_date(table) {
        rng.pick(&DATES).clone()
    } else if rng.chance(1, 4) {
        // across families: int <-> string
        if is_str(table) { rng.pick(&INTS).clone() } else { rng.pick(&STRS).clone() }
    } else if is_str(table) {
        rng.pick(&STRS).clone()
    } else {
        rng.pick(&INTS).clone()
    }
}

/// `tame`: only values every cast in the lattice accepts
fn gen_value(rng: &mut Rng, dt: &DataType, null_pct: u64, tame: bool) -> ScalarValue {
    let null = rng.below(100) < null_pct;
    let small = |rng: &mut Rng| rng.range(0, 100);
    let int = |rng: &mut Rng, lo: i128, hi: i128| -> i128 {
        if tame {
            return rng.range(0, 100) as i128;
        }
        match rng.below(8) {
            0 => lo,
            1 => hi,
            2 => 0,
            3 => *rng.pick(&[127i128, 128, 255, 256, 32767, 32768, 65536, 2147483647, 2147483648, 4294967295, 4294967296]).min(&hi),
            4 => (-*rng.pick(&[1i128, 128, 129, 32769, 2147483649])).max(lo),
            _ => (rng.range(-5, 130) as i128).clamp(lo, hi),
        }
    };
    macro_rules! mk {
        ($V:ident, $t:ty, $lo:expr, $hi:expr) => {
            ScalarValue::$V(if null { None } else { Some(int(rng, $lo as i128, $hi as i128) as $t) })
        };
    }
    match dt {
        DataType::Int8 => mk!(Int8, i8, i8::MIN, i8::MAX),
        DataType::Int16 => mk!(Int16, i16, i16::MIN, i16::MAX),
        DataType::Int32 => mk!(Int32, i32, i32::MIN, i32::MAX),
        DataType::Int64 => mk!(Int64, i64, i64::MIN, i64::MAX),
        DataType::UInt8 => mk!(UInt8, u8, 0, u8::MAX),
        DataType::UInt32 => mk!(UInt32, u32, 0, u32::MAX),
        DataType::Date32 => ScalarValue::Date32(if null { None } else { Some(if tame { small(rng) as i32 } else { int(rng, i32::MIN as i128, i32::MAX as i128) as i32 }) }),
        DataType::Date64 => ScalarValue::Date64(if null {
            None
        } else {
            Some(if tame { small(rng) * 86_400_000 } else { *rng.pick(&[0i64, 86_400_000, 86_399_999, -1, -86_400_001, 172_800_000, 185_542_587_187_200_000, 185_542_587_273_600_000, i64::MAX, i64::MIN + 1]) })
        }),
        _ => {
            let v = if null {
                None
            } else if tame {
                Some(small(rng).to_string())
            } else {
                Some(rng.pick(&["", "0", "7", "-5", "+3", "12", " 12", "12 ", "007", "1.5", "abc", "a", "b", "127", "128", "-129", "256", "65536", "4294967296", "9223372036854775808", "\u{e9}"]).to_string())
            };
            match dt {
                DataType::Utf8 => ScalarValue::Utf8(v),
                DataType::LargeUtf8 => ScalarValue::LargeUtf8(v),
                _ => ScalarValue::Utf8View(v),
            }
        }
    }
}

struct Case {
    table: SchemaRef,
    file: SchemaRef,
    batch: RecordBatch,
}

fn gen_case(rng: &mut Rng, tame: bool) -> Case {
    let names = ["a", "b", "c", "d"];
    let ncols = 2 + rng.below(3) as usize;
    let mut tcols = vec![];
    let mut fcols: Vec<(Field, bool)> = vec![]; // (field, must be non-null data)
    for name in names.iter().take(ncols) {
        let tt = gen_table_type(rng);
        let missing = rng.chance(1, 5);
        // a non-nullable table column: missing (error) or served by NULL-free data
        let t_nullable = !rng.chance(1, 8);
        tcols.push(Field::new(*name, tt.clone(), t_nullable));
        if !missing {
            let ft = gen_file_type(rng, &tt);
            fcols.push((Field::new(*name, ft, if t_nullable { rng.chance(2, 3) } else { rng.chance(1, 2) }), !t_nullable));
        }
    }
    // extra columns the table does not know
    for extra in ["x", "zz"] {
        if rng.chance(1, 3) {
            fcols.push((Field::new(extra, gen_table_type(rng), true), false));
        }
    }
    // permute the file columns
    for i in (1..fcols.len()).rev() {
        let j = rng.below(i as u64 + 1) as usize;
        fcols.swap(i, j);
    }
    if fcols.is_empty() {
        fcols.push((Field::new("x", DataType::Int32, true), false));
    }
    let rows = 3 + rng.below(4) as usize;
    let mut arrays: Vec<ArrayRef> = vec![];
    for (f, nonnull) in &fcols {
        let null_pct = if *nonnull || !f.is_nullable() { 0 } else { 25 };
        let vals: Vec<ScalarValue> = (0..rows).map(|_| gen_value(rng, f.data_type(), null_pct, tame)).collect();
        arrays.push(ScalarValue::iter_to_array(vals).unwrap());
    }
    let file = Arc::new(Schema::new(fcols.iter().map(|(f, _)| f.clone()).collect::<Vec<_>>()));
    let batch = RecordBatch::try_new(file.clone(), arrays).unwrap();
    Case { table: Arc::new(Schema::new(tcols)), file, batch }
}

fn file_row_sexp(c: &Case, r: usize) -> String {
    let mut s = String::from("(");
    for (i, f) in c.file.fields().iter().enumerate() {
        let v = ScalarValue::try_from_array(c.batch.column(i), r).unwrap();
        s.push_str(&format!("({} {} {} {})", hex(f.name().as_bytes()), ty_sexp(f.data_type()), if f.is_nullable() { "t" } else { "f" }, val_sexp(&v)));
    }
    s.push(')');
    s
}

fn table_sexp(t: &Schema) -> String {
    let mut s = String::from("(");
    for f in t.fields() {
        s.push_str(&format!("({} {} {})", hex(f.name().as_bytes()), ty_sexp(f.data_type()), if f.is_nullable() { "t" } else { "f" }));
    }
    s.push(')');
    s
}

fn row_vals(b: &RecordBatch, r: usize) -> Vec<String> {
    (0..b.num_columns()).map(|i| val_sexp(&ScalarValue::try_from_array(b.column(i), r).unwrap())).collect()
}

/// predicate AST shared by the physical expression, the SQL text and the model request
#[derive(Clone, Debug)]
enum Pred {
    Cmp(String, &'static str, ScalarValue), // col op lit   (op: eq | lt)
    IsNull(String),
    And(Box<Pred>, Box<Pred>),
    Or(Box<Pred>, Box<Pred>),
    Not(Box<Pred>),
}

fn gen_pred(rng: &mut Rng, table: &Schema, depth: u32, tame: bool) -> Pred {
    if depth > 0 && rng.chance(1, 2) {
        let a = Box::new(gen_pred(rng, table, depth - 1, tame));
        return match rng.below(3) {
            0 => Pred::And(a, Box::new(gen_pred(rng, table, depth - 1, tame))),
            1 => Pred::Or(a, Box::new(gen_pred(rng, table, depth - 1, tame))),
            _ => Pred::Not(a),
        };
    }
    let f = table.field(rng.below(table.fields().len() as u64) as usize);
    if rng.chance(1, 4) {
        Pred::IsNull(f.name().clone())
    } else {
        Pred::Cmp(f.name().clone(), if rng.chance(1, 2) { "eq" } else { "lt" }, gen_value(rng, f.data_type(), 0, tame))
    }
}

fn pred_phys(p: &Pred, table: &Schema) -> Result<Arc<dyn PhysicalExpr>, String> {
    Ok(match p {
        Pred::Cmp(c, op, v) => binary(col(c, table).map_err(|e| e.to_string())?, if *op == "eq" { Operator::Eq } else { Operator::Lt }, lit(v.clone()), table).map_err(|e| e.to_string())?,
        Pred::IsNull(c) => is_null(col(c, table).map_err(|e| e.to_string())?).map_err(|e| e.to_string())?,
        Pred::And(a, b) => binary(pred_phys(a, table)?, Operator::And, pred_phys(b, table)?, table).map_err(|e| e.to_string())?,
        Pred::Or(a, b) => binary(pred_phys(a, table)?, Operator::Or, pred_phys(b, table)?, table).map_err(|e| e.to_string())?,
        Pred::Not(a) => not(pred_phys(a, table)?).map_err(|e| e.to_string())?,
    })
}

fn pred_sexp(p: &Pred) -> String {
    match p {
        Pred::Cmp(c, op, v) => format!("({op} (col {}) (lit {} {}))", hex(c.as_bytes()), ty_sexp(&v.data_type()), val_sexp(v)),
        Pred::IsNull(c) => format!("(isnull (col {}))", hex(c.as_bytes())),
        Pred::And(a, b) => format!("(and {} {})", pred_sexp(a), pred_sexp(b)),
        Pred::Or(a, b) => format!("(or {} {})", pred_sexp(a), pred_sexp(b)),
        Pred::Not(a) => format!("(not {})", pred_sexp(a)),
    }
}

fn pred_sql(p: &Pred) -> String {
    match p {
        Pred::Cmp(c, op, v) => {
            let l = match v {
                ScalarValue::Utf8(Some(s)) | ScalarValue::LargeUtf8(Some(s)) | ScalarValue::Utf8View(Some(s)) => format!("'{}'", s.replace('\'', "''")),
                ScalarValue::Date32(Some(d)) => format!("arrow_cast({d}, 'Date32')"),
                ScalarValue::Date64(Some(d)) => format!("arrow_cast(arrow_cast({d}, 'Int64'), 'Date64')"),
                other => other.to_string(),
            };
            format!("({c} {} {l})", if *op == "eq" { "=" } else { "<" })
        }
        Pred::IsNull(c) => format!("({c} IS NULL)"),
        Pred::And(a, b) => format!("({} AND {})", pred_sql(a), pred_sql(b)),
        Pred::Or(a, b) => format!("({} OR {})", pred_sql(a), pred_sql(b)),
        Pred::Not(a) => format!("(NOT {})", pred_sql(a)),
    }
}

fn eval_bool(e: &Arc<dyn PhysicalExpr>, b: &RecordBatch) -> Result<Vec<Option<bool>>, String> {
    let v = e.evaluate(b).map_err(|e| e.to_string())?.into_array(b.num_rows()).map_err(|e| e.to_string())?;
    let a = v.as_any().downcast_ref::<BooleanArray>().ok_or_else(|| format!("predicate produced {}", v.data_type()))?;
    Ok(a.iter().collect())
}

fn show_bool(b: Option<bool>) -> &'static str {
    match b {
        None => "null",
        Some(true) => "t",
        Some(false) => "f",
    }
}

/// what a scan does: the identity projection of the table schema, each column rewritten by the
/// `DefaultPhysicalExprAdapter` against the file schema, simplified against the FILE schema and
/// evaluated on the file batch.
fn adapt_batch(c: &Case, b: &RecordBatch) -> Result<RecordBatch, String> {
    let (table, file, b) = (c.table.clone(), c.file.clone(), b.clone());
    guarded(move || {
        let adapter = DefaultPhysicalExprAdapter::new(table.clone(), file.clone());
        let simplifier = datafusion_physical_expr::PhysicalExprSimplifier::new(&file);
        let mut cols: Vec<ArrayRef> = vec![];
        for (i, f) in table.fields().iter().enumerate() {
            let e: Arc<dyn PhysicalExpr> = Arc::new(datafusion_physical_expr::expressions::Column::new(f.name(), i));
            let e = adapter.rewrite(e).map_err(|e| e.to_string())?;
            let e = simplifier.simplify(e).map_err(|e| e.to_string())?;
            cols.push(e.evaluate(&b).map_err(|e| e.to_string())?.into_array(b.num_rows()).map_err(|e| e.to_string())?);
        }
        RecordBatch::try_new(table.clone(), cols).map_err(|e| e.to_string())
    })
}

/// the packaged `BatchAdapterFactory` (used by the Avro source)
fn adapt_batch_factory(c: &Case, b: &RecordBatch) -> Result<RecordBatch, String> {
    let (table, file, b) = (c.table.clone(), c.file.clone(), b.clone());
    guarded(move || {
        let adapter = BatchAdapterFactory::new(table).make_adapter(&file).map_err(|e| e.to_string())?;
        adapter.adapt_batch(&b).map_err(|e| e.to_string())
    })
}

fn direct(run: &mut Run, rng: &mut Rng) {
    let n = run.budget(700, 20_000);
    for ci in 0..n {
        let c = gen_case(rng, false);
        let tsx = table_sexp(&c.table);
        let whole = adapt_batch(&c, &c.batch);
        let mut rows_ok = true;
        let mut row_results = vec![];
        for r in 0..c.batch.num_rows() {
            let one = c.batch.slice(r, 1);
            let res = adapt_batch(&c, &one);
            let ans = match &res {
                Ok(b) => {
                    let schema_ok = b.schema().fields().iter().zip(c.table.fields()).all(|(x, y)| x.name() == y.name() && x.data_type() == y.data_type());
                    run.oracle(schema_ok && b.num_columns() == c.table.fields().len(), &format!("adapt#{ci} row{r} schema"), &format!("adapted schema {:?} vs table {:?}", b.schema(), c.table));
                    format!("ok ({})", row_vals(b, 0).join(" "))
                }
                Err(e) => {
                    rows_ok = false;
                    if e.starts_with("panic") {
                        run.note(&format!("adapt panic: {e}"));
                        "err:panic".into()
                    } else {
                        "err".to_string()
                    }
                }
            };
            run.count(if res.is_ok() { "adapt_row_ok" } else { "adapt_row_err" });
            let differs = c.file.fields().iter().map(|f| f.name().as_str()).collect::<Vec<_>>() != c.table.fields().iter().map(|f| f.name().as_str()).collect::<Vec<_>>();
            run.case("adapt", &format!("({} {tsx})", file_row_sexp(&c, r)), &ans, differs);
            row_results.push(res);
        }
        // the packaged BatchAdapter must agree with the projection path
        let fac = adapt_batch_factory(&c, &c.batch);
        let agree = match (&fac, &whole) {
            (Ok(x), Ok(y)) => (0..x.num_rows()).all(|r| row_vals(x, r) == row_vals(y, r)) && x.num_rows() == y.num_rows(),
            (Err(_), Err(_)) => true,
            _ => false,
        };
        let class = match &fac {
            Err(e) if e.contains("PhysicalExpr Column references column") => "simplifier-wrong-schema",
            Err(_) => "error",
            Ok(_) => "value",
        };
        run.oracle(
            agree,
            &format!("batchadapter#{ci} {class}"),
            &format!("BatchAdapterFactory::new(table).make_adapter(file).adapt_batch = {:?} but projecting the rewritten table columns gives {:?}; table={tsx} file row0={}", fac.as_ref().map(|b| b.num_rows()), whole.as_ref().map(|b| b.num_rows()), file_row_sexp(&c, 0)),
        );
        // whole batch == rows
        match (&whole, rows_ok) {
            (Ok(b), true) => {
                let same = (0..b.num_rows()).all(|r| row_vals(b, r) == row_vals(row_results[r].as_ref().unwrap(), 0));
                run.oracle(same && b.num_rows() == c.batch.num_rows(), &format!("adapt#{ci} batch-vs-rows"), "adapting the batch differs from adapting its rows one by one");
            }
            (Err(_), false) => {}
            (Ok(_), false) => run.oracle(false, &format!("adapt#{ci} batch-ok-row-fails"), "the batch adapts but one of its rows alone does not"),
            (Err(e), true) => run.oracle(false, &format!("adapt#{ci} rows-ok-batch-fails"), &format!("every row adapts but the batch fails: {e}")),
        }
        // predicates
        for pi in 0..3 {
            let p = gen_pred(rng, &c.table, 2, false);
            let Ok(phys) = pred_phys(&p, &c.table) else { continue };
            let (table, file) = (c.table.clone(), c.file.clone());
            let phys2 = phys.clone();
            let rewritten = guarded(move || DefaultPhysicalExprAdapter::new(table, file).rewrite(phys2).map_err(|e| e.to_string()));
            run.count(if rewritten.is_ok() { "rewrite_ok" } else { "rewrite_err" });
            for r in 0..c.batch.num_rows() {
                let one = c.batch.slice(r, 1);
                let file_side: Result<Option<bool>, String> = match &rewritten {
                    Err(e) => Err(e.clone()),
                    Ok(rw) => {
                        let (rw, one) = (rw.clone(), one.clone());
                        guarded(move || eval_bool(&rw, &one).map(|v| v[0]))
                    }
                };
                let ans = match &file_side {
                    Ok(b) => show_bool(*b).to_string(),
                    Err(e) if e.starts_with("panic") => "err:panic".into(),
                    Err(_) => "err".into(),
                };
                run.case("filter", &format!("({} {tsx} {})", file_row_sexp(&c, r), pred_sexp(&p)), &ans, true);
                // implementation-level: rewritten-on-file == original-on-adapted
                if let Ok(adapted) = &row_results[r] {
                    let (ph, ad) = (phys.clone(), adapted.clone());
                    let table_side = guarded(move || eval_bool(&ph, &ad).map(|v| v[0]));
                    let agree = match (&file_side, &table_side) {
                        (Ok(x), Ok(y)) => x == y,
                        (Err(_), Err(_)) => true,
                        _ => false,
                    };
                    run.oracle(agree, &format!("filter#{ci}.{pi} row{r} {} on {} table {tsx}", pred_sexp(&p), file_row_sexp(&c, r)), &format!("rewritten predicate on the file row = {file_side:?}, predicate on the adapted row = {table_side:?}"));
                }
            }
        }
    }
}

fn canon_rows(batches: &[RecordBatch]) -> Vec<String> {
    let mut out = vec![];
    for b in batches {
        for r in 0..b.num_rows() {
            out.push(row_vals(b, r).join(" "));
        }
    }
    out.sort();
    out
}

fn end_to_end(run: &mut Run, rng: &mut Rng) {
    let n = run.budget(40, 600);
    let rt = tokio::runtime::Builder::new_current_thread().enable_all().build().unwrap();
    for ci in 0..n {
        // one table schema, 2..3 files adapted to it
        let first = gen_case(rng, true);
        let table = first.table.clone();
        let mut cases = vec![first];
        let extra = 1 + rng.below(2);
        let mut tries = 0;
        while cases.len() < 1 + extra as usize && tries < 200 {
            tries += 1;
            let mut c = gen_case(rng, true);
            // re-target the new file at the shared table schema: keep only files whose columns are castable
            let ok = c.file.fields().iter().all(|f| match table.field_with_name(f.name()) {
                Ok(t) => (is_date(t.data_type()) == is_date(f.data_type())) && (t.is_nullable() || c.batch.column_by_name(f.name()).unwrap().null_count() == 0),
                Err(_) => true,
            });
            if ok {
                c.table = table.clone();
                cases.push(c);
            }
        }
        // expected rows: direct adaptation of every file
        let mut expected_batches = vec![];
        let mut expect_err = false;
        for c in &cases {
            match adapt_batch(c, &c.batch) {
                Ok(b) => expected_batches.push(b),
                Err(_) => expect_err = true,
            }
        }
        let dir = tempfile::tempdir().unwrap();
        for (i, c) in cases.iter().enumerate() {
            let f = std::fs::File::create(dir.path().join(format!("f{i}.parquet"))).unwrap();
            let mut w = parquet::arrow::ArrowWriter::try_new(f, c.file.clone(), None).unwrap();
            w.write(&c.batch).unwrap();
            w.close().unwrap();
        }
        let p = gen_pred(rng, &table, 1, true);
        let phys = pred_phys(&p, &table);
        let sql_where = pred_sql(&p);
        for (pushdown, with_filter) in [(true, false), (true, true), (false, true)] {
            let mut cfg = SessionConfig::new().with_target_partitions(2);
            cfg.options_mut().execution.parquet.pushdown_filters = pushdown;
            cfg.options_mut().execution.parquet.reorder_filters = pushdown;
            let ctx = SessionContext::new_with_config(cfg);
            let url = ListingTableUrl::parse(dir.path().to_str().unwrap()).unwrap();
            let opts = ListingOptions::new(Arc::new(ParquetFormat::default())).with_file_extension(".parquet");
            let config = ListingTableConfig::new(url).with_listing_options(opts).with_schema(table.clone());
            let lt = ListingTable::try_new(config).unwrap();
            ctx.register_table("t", Arc::new(lt)).unwrap();
            let sql = if with_filter { format!("SELECT * FROM t WHERE {sql_where}") } else { "SELECT * FROM t".to_string() };
            let got: Result<Vec<RecordBatch>, String> = rt.block_on(async {
                let df = ctx.sql(&sql).await.map_err(|e| e.to_string())?;
                df.collect().await.map_err(|e| e.to_string())
            });
            if expect_err && with_filter {
                // a file that cannot be adapted (non-nullable table column missing) may be pruned away by
                // the predicate before the error can surface: not forbidden by the property
                run.count("e2e_skipped_unadaptable_file_with_filter");
                continue;
            }
            let want: Result<Vec<String>, String> = if expect_err {
                Err("a file cannot be adapted".into())
            } else if with_filter {
                match &phys {
                    Err(e) => Err(e.clone()),
                    Ok(ph) => {
                        let mut rows = vec![];
                        let mut err = None;
                        for b in &expected_batches {
                            match eval_bool(ph, b) {
                                Ok(m) => {
                                    for (r, keep) in m.iter().enumerate() {
                                        if *keep == Some(true) {
                                            rows.push(row_vals(b, r).join(" "));
                                        }
                                    }
                                }
                                Err(e) => err = Some(e),
                            }
                        }
                        rows.sort();
                        match err {
                            Some(e) => Err(e),
                            None => Ok(rows),
                        }
                    }
                }
            } else {
                Ok(canon_rows(&expected_batches))
            };
            let files: Vec<String> = cases.iter().map(|c| format!("{:?}", c.file.fields().iter().map(|f| format!("{}:{}{}", f.name(), f.data_type(), if f.is_nullable() { "?" } else { "" })).collect::<Vec<_>>())).collect();
            let sig = format!("e2e#{ci} pushdown={pushdown} sql=`{sql}` table={:?} files={files:?}", table.fields().iter().map(|f| format!("{}:{}{}", f.name(), f.data_type(), if f.is_nullable() { "?" } else { "" })).collect::<Vec<_>>());
            match (&got, &want) {
                (Ok(g), Ok(w)) => {
                    let g = canon_rows(g);
                    run.oracle(&g == w, &sig, &format!("query returned {g:?}, directly adapted rows are {w:?}"));
                    run.count(if w.is_empty() { "e2e_empty" } else { "e2e_rows" });
                }
                (Err(_), Err(_)) => run.count("e2e_both_err"),
                (Ok(g), Err(e)) => run.oracle(false, &sig, &format!("query succeeded with {} rows but direct adaptation fails: {e}", canon_rows(g).len())),
                (Err(e), Ok(_)) => run.oracle(false, &sig, &format!("query failed: {e}")),
            }
        }
    }
}

pub fn run(run: &mut Run, args: &Args) {
    std::panic::set_hook(Box::new(|info| {
        if GUARD.load(std::sync::atomic::Ordering::SeqCst) == 0 {
            eprintln!("harness panic: {info}");
        }
    }));
    let mut rng = Rng::new(args.seed);
    direct(run, &mut rng);
    end_to_end(run, &mut rng);
    let _ = BTreeSet::<u8>::new();
}
