//! C41 — bound query parameters behave like the equivalent literals.
//!
//! Every generated query of the C01 fragment (`sqlgen::QueryGen`) gets a random subset of its
//! literals — in filters, projections, join conditions, IN lists, CASE arms, aggregate arguments,
//! sub-queries — and optionally its outermost LIMIT / OFFSET replaced by `$n`.  The statement is run
//!   (L) with the values written back as literals (the original text),
//!   (E) through `PREPARE st(<types>) AS … ; EXECUTE st(<values>)`,
//!   (W) through `ctx.sql(<text with $n>).with_param_values(<ScalarValue…>)` (placeholder types
//!       inferred by the planner; statements whose placeholder types cannot be inferred are counted
//!       as `W:uninferable` and not judged on that route).
//! Implementation-level oracle: rows of (E) and (W) = rows of (L) (bag; sequence under a total ORDER
//! BY; "bag + sorted by the key" under a partial one) and the result schemas agree (names, logical
//! types).  Correspondence: the Lean reference evaluates the parameterised plan with the values in
//! the environment AND the bound plan, and judges (E)/(W) and (L).
use std::collections::BTreeMap;
use std::sync::Arc;
use std::time::Duration;

use arrow::datatypes::DataType;
use datafusion::prelude::SessionContext;
use datafusion_common::ScalarValue;
use hutil::{Args, Rng, Run};

use crate::c01::make_ctx;
use crate::sqlgen::*;

type Rows = Vec<Vec<Val>>;
/// (rows, schema as (name, logical type))
type Out = Result<(Rows, Vec<(String, String)>), String>;

fn logical(dt: &DataType) -> String {
    match dt {
        DataType::Utf8 | DataType::Utf8View | DataType::LargeUtf8 => "string".into(),
        DataType::Dictionary(_, v) => logical(v),
        d => format!("{d:?}"),
    }
}

enum Route<'a> {
    Sql(&'a str),
    PrepareExecute(&'a str, &'a str),
    /// text, values, indices of the LIMIT/OFFSET placeholders (Int64 by definition, no inference)
    WithParams(&'a str, Vec<ScalarValue>, Vec<usize>),
}

fn run_route(rt: &tokio::runtime::Runtime, ctx: &SessionContext, route: Route) -> Out {
    let ctx = ctx.clone();
    let r = hutil::catch(std::panic::AssertUnwindSafe(move || {
        rt.block_on(async move {
            let fut = async {
                let df = match route {
                    Route::Sql(s) => ctx.sql(s).await.map_err(|e| e.to_string())?,
                    Route::PrepareExecute(p, e) => {
                        ctx.sql(p).await.map_err(|e| format!("PREPARE: {e}"))?.collect().await.map_err(|e| format!("PREPARE: {e}"))?;
                        let r = ctx.sql(e).await.map_err(|e| e.to_string());
                        r?
                    }
                    Route::WithParams(s, vals, lim_idx) => {
                        // a placeholder whose type the planner cannot infer is not in the property's
                        // quantifier ("parameter values of the inferred types")
                        let tag = |e: datafusion_common::DataFusionError| {
                            let m = e.to_string();
                            if m.to_lowercase().contains("placeholder") { format!("UNINFERABLE?: {m}") } else { m }
                        };
                        // planning the text with UNTYPED placeholders: a failure here means the
                        // planner could not infer the placeholder types (it treats them as Null)
                        let df = ctx.sql(s).await.map_err(|e| format!("UNINFERABLE?: {e}"))?;
                        // "parameter values of the inferred types": the value given for `$n` must have
                        // the type the planner inferred for `$n`.  Where nothing is inferred (`$6 + $7`,
                        // `NULLIF($2, $3)`, `SELECT $1`) the planner falls back to Null / Int64 and a
                        // value of another type is outside the property's quantifier.
                        let types = df.logical_plan().get_parameter_types().map_err(tag)?;
                        for (i, v) in vals.iter().enumerate() {
                            if lim_idx.contains(&i) {
                                continue;
                            }
                            match types.get(&format!("${}", i + 1)) {
                                Some(Some(dt)) if logical(dt) == logical(&v.data_type()) => {}
                                Some(Some(dt)) => return Err(format!("UNINFERABLE?: DIFFERS inferred type {dt:?} for ${} differs from the value's type {:?}", i + 1, v.data_type())),
                                _ => return Err(format!("UNINFERABLE?: NONE no type inferred for ${}", i + 1)),
                            }
                        }
                        df.with_param_values(vals).map_err(tag)?
                    }
                };
                let schema: Vec<(String, String)> = df.schema().fields().iter().map(|f| (f.name().clone(), logical(f.data_type()))).collect();
                let batches = df.collect().await.map_err(|e| e.to_string())?;
                Ok((rows_of_batches(&batches)?, schema))
            };
            match tokio::time::timeout(Duration::from_secs(30), fut).await {
                Ok(r) => r,
                Err(_) => Err("HANG: no result within 30 s".to_string()),
            }
        })
    }));
    match r {
        Ok(r) => r,
        Err(p) => Err(format!("PANIC: {p}")),
    }
}

fn scalar(v: &Val, ty: Ty) -> ScalarValue {
    match (v, ty) {
        (Val::Null, Ty::Int(8)) => ScalarValue::Int8(None),
        (Val::Null, Ty::Int(16)) => ScalarValue::Int16(None),
        (Val::Null, Ty::Int(32)) => ScalarValue::Int32(None),
        (Val::Null, Ty::Int(_)) => ScalarValue::Int64(None),
        (Val::Null, Ty::Bool) => ScalarValue::Boolean(None),
        (Val::Null, Ty::Str) => ScalarValue::Utf8(None),
        (Val::Int(8, n), _) => ScalarValue::Int8(Some(*n as i8)),
        (Val::Int(16, n), _) => ScalarValue::Int16(Some(*n as i16)),
        (Val::Int(32, n), _) => ScalarValue::Int32(Some(*n as i32)),
        (Val::Int(_, n), _) => ScalarValue::Int64(Some(*n)),
        (Val::Bool(b), _) => ScalarValue::Boolean(Some(*b)),
        (Val::Str(s), _) => ScalarValue::Utf8(Some(s.clone())),
    }
}

fn counts(rows: &[Vec<Val>]) -> BTreeMap<Vec<Val>, usize> {
    let mut m = BTreeMap::new();
    for r in rows {
        *m.entry(r.clone()).or_insert(0) += 1;
    }
    m
}

/// are the rows sorted by the ORDER BY key of `q` (engine default NULL placement made explicit)?
fn sorted_by(q: &Query, rows: &[Vec<Val>]) -> bool {
    use std::cmp::Ordering::*;
    let cmp = |a: &Vec<Val>, b: &Vec<Val>| {
        for o in &q.order {
            let nf = o.nulls_first.unwrap_or(o.desc);
            let (x, y) = (&a[o.col], &b[o.col]);
            let c = match (x, y) {
                (Val::Null, Val::Null) => Equal,
                (Val::Null, _) => if nf { Less } else { Greater },
                (_, Val::Null) => if nf { Greater } else { Less },
                (x, y) => {
                    let c = match (x, y) {
                        (Val::Int(_, p), Val::Int(_, q)) => p.cmp(q),
                        (Val::Bool(p), Val::Bool(q)) => p.cmp(q),
                        (Val::Str(p), Val::Str(q)) => p.as_bytes().cmp(q.as_bytes()),
                        _ => Equal,
                    };
                    if o.desc { c.reverse() } else { c }
                }
            };
            if c != Equal {
                return c;
            }
        }
        Equal
    };
    rows.windows(2).all(|w| cmp(&w[0], &w[1]) != Greater)
}

/// the property's predicate on two engine outputs
fn same_result(q: &Query, seq: bool, a: &Out, b: &Out) -> Result<(), String> {
    match (a, b) {
        (Ok((ra, sa)), Ok((rb, sb))) => {
            // names and logical types must agree; a column that one route still declares with the
            // unknown type `Null` (an untyped placeholder in a SELECT list) is not compared
            let differs = sa.len() != sb.len() || sa.iter().zip(sb.iter()).any(|(x, y)| x.0 != y.0 || (x.1 != y.1 && x.1 != "Null" && y.1 != "Null"));
            if differs {
                return Err(format!("schemas differ: {sa:?} vs {sb:?}"));
            }
            if seq {
                if ra != rb {
                    return Err(format!("row sequences differ: {} vs {}", rows_sexp(ra), rows_sexp(rb)));
                }
            } else {
                if counts(ra) != counts(rb) {
                    return Err(format!("row bags differ: {} vs {}", rows_sexp(ra), rows_sexp(rb)));
                }
                if !q.order.is_empty() && !(sorted_by(q, ra) && sorted_by(q, rb)) {
                    return Err(format!("a result is not sorted by the ORDER BY key: {} / {}", rows_sexp(ra), rows_sexp(rb)));
                }
            }
            Ok(())
        }
        (Err(ea), Err(eb)) => {
            let (ca, cb) = (err_class(ea), err_class(eb));
            // both fail: same class expected (a run-time error may surface as a planning-time error
            // when a literal makes the expression constant-foldable — both are failures)
            if ca == cb || (["div0", "overflow", "cast"].contains(&ca) && ["div0", "overflow", "cast"].contains(&cb)) { Ok(()) } else { Err(format!("different failures: `{}` vs `{}`", ea.chars().take(200).collect::<String>(), eb.chars().take(200).collect::<String>())) }
        }
        (Ok((ra, _)), Err(e)) | (Err(e), Ok((ra, _))) => Err(format!("one route returned {} rows, the other failed: {}", ra.len(), e.chars().take(300).collect::<String>())),
    }
}

fn impl_sexp(o: &Out) -> String {
    match o {
        Ok((rows, _)) => format!("(ok {})", rows_sexp(rows)),
        Err(m) => format!("(err {})", err_class(m)),
    }
}

pub fn run(run: &mut Run, args: &Args) {
    let mut rng = Rng::new(args.seed);
    hutil::quiet_panics();
    let rt = tokio::runtime::Builder::new_current_thread().enable_all().build().unwrap();
    let n_queries = run.budget(300, 6000);
    let mut qi = 0u64;
    let mut attempts = 0u64;
    while qi < n_queries && attempts < n_queries * 4 {
        attempts += 1;
        let db = gen_db(&mut rng, 8);
        let depth = if run.thorough() { 1 + rng.below(3) as u32 } else { 1 + rng.below(2) as u32 };
        let err_pct = *rng.pick(&[0u64, 0, 0, 10]);
        let q0 = {
            let mut qg = QueryGen::new(&db, err_pct);
            qg.gen_query(&mut rng, depth)
        };
        // ---- literals → placeholders
        let mut params: Vec<(Val, Ty)> = vec![];
        let dens = *rng.pick(&[1u64, 2, 3]);
        let mut n_lits = 0u64;
        let mut q = {
            let rng2 = &mut rng;
            let params2 = &mut params;
            q0.map_exprs(&mut |e| match e {
                // (a bare `NULL` has no type of its own in the text: it stays a literal)
                Expr::Lit(v, ty, bare) if !(bare && v == Val::Null) && params2.len() < 8 && { n_lits += 1; rng2.chance(dens, 3) } => {
                    // reuse a placeholder for an identical value sometimes ($1 used twice)
                    if let Some(i) = params2.iter().position(|(pv, pt)| *pv == v && *pt == ty) {
                        if rng2.chance(1, 2) {
                            return Expr::Ph(i, ty);
                        }
                    }
                    params2.push((v, ty));
                    Expr::Ph(params2.len() - 1, ty)
                }
                e => e,
            })
        };
        // ---- literals that the SQL text does not show (e.g. the dummy argument of COUNT(*)) cannot be
        //      parameters: keep only the placeholders that occur in the text, renumbered $1..$k
        {
            let text = q.sql();
            let used: Vec<bool> = (0..params.len()).map(|i| {
                let pat = format!("${}", i + 1);
                text.match_indices(&pat).any(|(pos, _)| !text[pos + pat.len()..].starts_with(|c: char| c.is_ascii_digit()))
            }).collect();
            if used.iter().any(|u| !u) {
                let mut newidx: Vec<Option<usize>> = vec![None; params.len()];
                let mut kept: Vec<(Val, Ty)> = vec![];
                for (i, u) in used.iter().enumerate() {
                    if *u {
                        newidx[i] = Some(kept.len());
                        kept.push(params[i].clone());
                    }
                }
                let old = params.clone();
                q = q.map_exprs(&mut |e| match e {
                    Expr::Ph(i, ty) => match newidx[i] {
                        Some(n) => Expr::Ph(n, ty),
                        None => Expr::Lit(old[i].0.clone(), ty, false),
                    },
                    e => e,
                });
                params = kept;
            }
        }
        // ---- parameterised outermost LIMIT / OFFSET
        let mut skip_arg = String::from("()");
        let mut fetch_arg = String::from("()");
        let mut lim_sql_p = String::new();
        let mut lim_sql_l = String::new();
        let mut lim_kind = "none";
        let mut lim_idx: Vec<usize> = vec![];
        let mut fetch_ph: Option<usize> = None;
        let mut skip_ph: Option<usize> = None;
        if let Some((skip, fetch)) = q.limit {
            if rng.chance(1, 2) {
                // take the clause out of the AST and write it ourselves
                q.limit = None;
                lim_kind = "param";
                let weird = rng.chance(1, 6);
                if let Some(f) = fetch {
                    let v = if weird { Val::Null } else { Val::Int(64, f as i64) };
                    params.push((v.clone(), Ty::Int(64)));
                    fetch_arg = format!("(ph {})", params.len() - 1);
                    lim_idx.push(params.len() - 1);
                    fetch_ph = Some(params.len() - 1);
                    lim_sql_p.push_str(&format!(" LIMIT ${}", params.len()));
                    lim_sql_l.push_str(&format!(" LIMIT {}", v.sql(Ty::Int(64), false)));
                    if weird {
                        lim_kind = "param-null";
                    }
                }
                if skip > 0 || fetch.is_none() {
                    params.push((Val::Int(64, skip as i64), Ty::Int(64)));
                    skip_arg = format!("(ph {})", params.len() - 1);
                    lim_idx.push(params.len() - 1);
                    skip_ph = Some(params.len() - 1);
                    lim_sql_p.push_str(&format!(" OFFSET ${}", params.len()));
                    lim_sql_l.push_str(&format!(" OFFSET {skip}"));
                }
            }
        }
        if params.is_empty() {
            run.count("skipped:no-literal");
            continue;
        }
        qi += 1;
        let mut q0l = q0.clone();
        if lim_kind != "none" {
            q0l.limit = None;
        }
        let sql_l = format!("{}{}", q0l.sql(), lim_sql_l);
        let sql_p = format!("{}{}", q.sql(), lim_sql_p);
        let plan = q.plan();
        let prep = format!("PREPARE st({}) AS {}", params.iter().map(|(_, t)| t.sql()).collect::<Vec<_>>().join(", "), sql_p);
        let exec = format!("EXECUTE st({})", params.iter().map(|(v, t)| v.sql(*t, false)).collect::<Vec<_>>().join(", "));
        let vals: Vec<ScalarValue> = params.iter().map(|(v, t)| scalar(v, *t)).collect();
        let seq = !q.order.is_empty() && q.order_is_total();
        let mode = if q.order.is_empty() {
            "bag".to_string()
        } else if seq {
            "seq".to_string()
        } else {
            format!("(sorted {})", q.order.iter().map(|o| format!("({} {} {})", o.col, if o.desc { "t" } else { "f" }, if o.nulls_first.unwrap_or(o.desc) { "t" } else { "f" })).collect::<Vec<_>>().join(" "))
        };
        // a LIMIT without a total order picks an arbitrary sub-bag: compare only with a total order
        let limited = q0.limit.is_some();
        if limited && !seq {
            run.count("skipped:limit-without-total-order");
            qi -= 1;
            continue;
        }
        let mut cs = std::collections::BTreeSet::new();
        q.constructs(&mut cs);
        let structural = cs.iter().any(|c| c.starts_with("join-") || c.contains("subquery") || c.contains("exists") || c.starts_with("group") || c.starts_with("aggregate") || c.contains("union") || c.contains("intersect") || c.contains("except"));
        run.add("params", params.len() as u64);
        run.add("literals-seen", n_lits);
        run.count(&format!("limit:{lim_kind}"));
        if params.iter().any(|(v, _)| *v == Val::Null) {
            run.count("with-null-param");
        }
        if cs.iter().any(|c| c.contains("subquery") || c.contains("exists")) {
            run.count("with-subquery");
        }

        let ctx = make_ctx(&mut rng, &db);
        let dbs = db_sexp(&db);
        let out_l = run_route(&rt, &ctx, Route::Sql(&sql_l));
        let out_e = run_route(&rt, &ctx, Route::PrepareExecute(&prep, &exec));
        // ---- the statement for the with_param_values route: the property quantifies over "parameter
        //      values of the inferred types", so only the placeholders for which the planner infers
        //      exactly the value's type stay placeholders; the others (`$6 + $7`, `NULLIF($2, $3)`,
        //      `SELECT $1 …`: nothing to infer from, the planner falls back to Null / Int64) are written
        //      back as literals.  LIMIT / OFFSET placeholders are Int64 by definition.
        let inferred = rt.block_on(async {
            match ctx.sql(&sql_p).await {
                Ok(df) => df.logical_plan().get_parameter_types().ok(),
                Err(_) => None,
            }
        });
        let keep: Vec<bool> = (0..params.len())
            .map(|i| {
                lim_idx.contains(&i)
                    || matches!(inferred.as_ref().and_then(|m| m.get(&format!("${}", i + 1))), Some(Some(dt)) if logical(dt) == logical(&vals[i].data_type()))
            })
            .collect();
        run.add("W:placeholders-kept", keep.iter().filter(|k| **k).count() as u64);
        run.add("W:placeholders-written-back-as-literals", keep.iter().filter(|k| !**k).count() as u64);
        let mut newidx: Vec<Option<usize>> = vec![None; params.len()];
        let mut params_w: Vec<(Val, Ty)> = vec![];
        for (i, k) in keep.iter().enumerate() {
            if *k {
                newidx[i] = Some(params_w.len());
                params_w.push(params[i].clone());
            }
        }
        let qw = q.map_exprs(&mut |e| match e {
            Expr::Ph(i, ty) => match newidx[i] {
                Some(n) => Expr::Ph(n, ty),
                None => Expr::Lit(params[i].0.clone(), ty, false),
            },
            e => e,
        });
        let mut lim_sql_w = String::new();
        let mut fetch_arg_w = String::from("()");
        let mut skip_arg_w = String::from("()");
        let mut lim_idx_w = vec![];
        if let Some(n) = fetch_ph.and_then(|i| newidx[i]) {
            lim_sql_w.push_str(&format!(" LIMIT ${}", n + 1));
            fetch_arg_w = format!("(ph {n})");
            lim_idx_w.push(n);
        }
        if let Some(n) = skip_ph.and_then(|i| newidx[i]) {
            lim_sql_w.push_str(&format!(" OFFSET ${}", n + 1));
            skip_arg_w = format!("(ph {n})");
            lim_idx_w.push(n);
        }
        let sql_w = format!("{}{}", qw.sql(), lim_sql_w);
        let plan_w = qw.plan();
        let vals_w: Vec<ScalarValue> = params_w.iter().map(|(v, t)| scalar(v, *t)).collect();
        let out_w = if params_w.is_empty() {
            run.count("W:no-inferable-placeholder");
            Err("UNINFERABLE?: NONE no placeholder with an inferred type".to_string())
        } else {
            run_route(&rt, &ctx, Route::WithParams(&sql_w, vals_w, lim_idx_w))
        };
        let _ = rt.block_on(async { ctx.sql("DEALLOCATE st").await });
        let replay = format!("literal: `{sql_l}` ;; `{prep}` ;; `{exec}` ;; db={dbs}");
        for (name, o) in [("L", &out_l), ("E", &out_e), ("W", &out_w)] {
            match o {
                Ok((r, _)) => run.count(&format!("{name}:ok{}", if r.is_empty() { "-empty" } else { "" })),
                // (a panic of the PREPARE/EXECUTE route goes through the classification below)
                Err(m) if m.starts_with("HANG") || (m.starts_with("PANIC") && name != "E") => {
                    run.oracle(false, &format!("C41 engine {} route {name} :: {sql_p}", &m[..4]), &format!("{m}; {replay}"));
                }
                Err(m) if m.starts_with("UNINFERABLE?: DIFFERS") => run.count(&format!("{name}:inferred-type-differs-from-value")),
                Err(m) if m.starts_with("UNINFERABLE?") => run.count(&format!("{name}:uninferable")),
                Err(m) if m.starts_with("PANIC") => run.count(&format!("{name}:panic")),
                Err(m) => run.count(&format!("{name}:err-{}", err_class(m))),
            }
        }
        // ---- implementation-level oracle: parameterised = literal
        // the literal text itself may be rejected by the planner (e.g. two aggregate expressions that
        // print alike after the casts are folded: "duplicate unqualified field name"): then there is no
        // literal result to compare with — counted, not judged
        let l_rejected = matches!(&out_l, Err(m) if ["plan", "notimpl"].contains(&err_class(m))) && out_e.is_ok();
        if l_rejected {
            run.count("L:rejected-by-planner-while-E-ok");
        }
        let out_l = if l_rejected { out_e.clone() } else { out_l };
        let r = same_result(&q, seq, &out_e, &out_l);
        let mut e_known = false;
        if r.is_err() {
            // is it the PREPARE-time optimisation?  PREPARE optimises the plan while the placeholders
            // are still unknown; `push_down_filter` moves a column-free predicate (`HAVING $1`,
            // `WHERE $1 > $2` over a derived table) below an aggregate without GROUP BY, which then
            // produces its one row over the empty input.  Re-run the PREPARE route without that rule.
            let ctx2 = make_ctx(&mut rng, &db);
            ctx2.remove_optimizer_rule("push_down_filter");
            let out_e2 = run_route(&rt, &ctx2, Route::PrepareExecute(&prep, &exec));
            e_known = same_result(&q, seq, &out_e2, &out_l).is_ok();
        }
        let mut e_optdep = false;
        if r.is_err() && !e_known {
            // more generally: PREPARE runs the logical optimizer while the values are unknown, the
            // literal statement is optimised with the values in place.  If both routes agree once the
            // value-sensitive rules are removed, the difference is made by the optimizer, not by the
            // substitution of the parameters.
            let ctx3 = make_ctx(&mut rng, &db);
            for rule in ["push_down_filter", "simplify_expressions", "optimize_unions", "optimize_projections", "propagate_empty_relation", "eliminate_filter", "common_sub_expression_eliminate", "eliminate_outer_join", "eliminate_limit", "push_down_limit"] {
                ctx3.remove_optimizer_rule(rule);
            }
            let l3 = run_route(&rt, &ctx3, Route::Sql(&sql_l));
            let e3 = run_route(&rt, &ctx3, Route::PrepareExecute(&prep, &exec));
            e_optdep = same_result(&q, seq, &e3, &l3).is_ok();
            e_known = e_optdep;
        }
        if e_optdep {
            run.count("finding:G2");
            run.oracle(false, &format!("C41 G2 prepare-time-optimization-differs-from-literal :: {sql_p} :: {exec}"), &format!("{}; both routes agree once the value-sensitive optimizer rules are removed; {replay}", r.err().unwrap_or_default()));
        } else if e_known {
            run.count("finding:G1");
            run.oracle(false, &format!("C41 G1 prepare-pushes-parameter-filter-below-global-aggregate :: {sql_p} :: {exec}"), &format!("{}; equal to the literal statement once optimizer rule push_down_filter is removed; {replay}", r.err().unwrap_or_default()));
        } else {
            run.oracle(r.is_ok(), &format!("C41 execute-vs-literal :: {sql_p} :: {exec}"), &format!("{}; {replay}", r.err().unwrap_or_default()));
        }
        // a route that the planner rejects (planning / not-implemented error, no rows at all) while the
        // literal text runs is an engine limitation met through that route — counted, not judged
        let w_rejected = matches!(&out_w, Err(m) if !m.starts_with("UNINFERABLE?") && ["plan", "notimpl"].contains(&err_class(m))) && out_l.is_ok();
        if w_rejected {
            run.count("W:rejected-by-planner-while-L-ok");
        }
        let w_judged = !w_rejected && !matches!(&out_w, Err(m) if m.starts_with("UNINFERABLE?"));
        if w_judged {
            let r = same_result(&q, seq, &out_w, &out_l);
            run.oracle(r.is_ok(), &format!("C41 with_param_values-vs-literal :: {sql_w} :: ({})", params_w.iter().map(|(v, t)| v.sql(*t, false)).collect::<Vec<_>>().join(", ")), &format!("{}; {replay}", r.err().unwrap_or_default()));
        }
        // ---- correspondence with the Lean reference (both routes and the literal text)
        let ps = format!("({})", params.iter().map(|(v, _)| v.sexp()).collect::<Vec<_>>().join(" "));
        let nontrivial = structural && matches!(&out_l, Ok((r, _)) if !r.is_empty());
        // (a known deviation of the PREPARE route is reported by the oracle above, not a second time
        //  through the model: the literal statement is judged instead)
        let e_for_model = if e_known { &out_l } else { &out_e };
        run.case("query", &format!("({mode} {plan} {skip_arg} {fetch_arg} {dbs} {ps} {} {})", impl_sexp(e_for_model), impl_sexp(&out_l)), "ok", nontrivial);
        if w_judged {
            let ps_w = format!("({})", params_w.iter().map(|(v, _)| v.sexp()).collect::<Vec<_>>().join(" "));
            run.case("query", &format!("({mode} {plan_w} {skip_arg_w} {fetch_arg_w} {dbs} {ps_w} {} {})", impl_sexp(&out_w), impl_sexp(&out_l)), "ok", false);
        }
        if qi <= 3 {
            run.note(&format!("sample: {prep} ;; {exec}"));
        }
    }
    run.add("queries", qi);
    let _ = Arc::new(0);
}
