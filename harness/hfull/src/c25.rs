//! C25 — written files read back as written.
//!
//! (K) codec correspondence (equality with the Lean models `Text.Percent` / `Text.Hive`):
//!       `part`  object_store `PathPart::from`            (what `Path::join` does to a directory name)
//!       `seg`   the directory segment the writer creates  `base.join(format!("{name}={value}"))`
//!       `parse` `parse_partitions_for_path` on raw paths  (incl. malformed `%` sequences, invalid UTF-8)
//!       `demux` rows → (partition key → row ids) as observed after a real partitioned write
//!       `bag`   Lean judges written-vs-read row bags (CSV: NULL ≡ "")
//! (O) implementation-level oracles: directory build→parse round trip for every value; end-to-end
//!     COPY / DataFrame::write_* / INSERT × {parquet, csv, json, arrow} × compression × partition columns ×
//!     single/multiple files, read back through a listing table (also with byte-range repartitioned
//!     scans): same row bag.
use std::collections::BTreeMap;
use std::sync::Arc;

use arrow::array::*;
use arrow::datatypes::{DataType, Field, Schema};
use datafusion::dataframe::DataFrameWriteOptions;
use datafusion::datasource::listing::ListingTableUrl;
use datafusion::prelude::*;
use datafusion_catalog_listing::helpers::parse_partitions_for_path;
use futures::TryStreamExt;
use hutil::{Args, Rng, Run, hex};
use object_store::memory::InMemory;
use object_store::path::{Path, PathPart};
use object_store::ObjectStore;

const NASTY: [&str; 22] = [
    "a", "b", "", " ", "a b", "a/b", "x=y", "100%", "%2F", "é☃", ".", "..", "a,b", "q\"uote", "tab\tx", "#?", "*~", "NULL",
    "__HIVE_DEFAULT_PARTITION__", "a%", "%zz", "日本",
];

fn rand_string(rng: &mut Rng) -> String {
    if rng.chance(2, 3) {
        return rng.pick(&NASTY).to_string();
    }
    let alpha: Vec<char> = "ab/=% .%2Fé,\"'#?*~\\{}[]<>|^`\u{1}\u{7f}\r☃".chars().collect();
    (0..rng.below(6)).map(|_| *rng.pick(&alpha)).collect()
}

// ------------------------------------------------------------------------------------------------
// (A) codecs
// ------------------------------------------------------------------------------------------------
fn codecs(run: &mut Run, rng: &mut Rng) {
    let n = run.budget(10_000, 100_000);
    let url = ListingTableUrl::parse("memory:///t/").unwrap();
    for _ in 0..n {
        let v = rand_string(rng);
        // PathPart::from
        let part = PathPart::from(v.as_str());
        run.case("part", &format!("({})", hex(v.as_bytes())), &hex(part.as_ref().as_bytes()), !v.is_empty());
        // directory segment + round trip through the real parser
        let name = *rng.pick(&["p", "col_1", "Year"]);
        let path = Path::from("t").join(format!("{name}={v}"));
        let seg = path.parts().last().unwrap().as_ref().to_string();
        run.case("seg", &format!("({} {})", hex(name.as_bytes()), hex(v.as_bytes())), &hex(seg.as_bytes()), true);
        let full = path.join("f.parquet");
        let parsed = parse_partitions_for_path(&url, &full, vec![name]);
        let ok = matches!(&parsed, Some(x) if x.len() == 1 && x[0] == v);
        run.oracle(ok, &format!("c25 hive-roundtrip name={name} value={}", hex(v.as_bytes())), &format!("directory {seg:?} parsed back as {parsed:?}, written value {v:?}"));
        if v.contains('%') || v.contains('/') {
            run.count("values containing % or /");
        }
        if !v.is_ascii() {
            run.count("non-ASCII values");
        }
    }
    // raw paths (third-party spellings, malformed escapes)
    let raw_alpha: Vec<&str> = vec!["a", "b", "=", "%", "2", "F", "f", " ", ".", "é", "C", "3", "A", "9", "z", "%FF", "%C3%A9", "%2F", "%25", "%3D"];
    let n = run.budget(10_000, 100_000);
    for _ in 0..n {
        let ncols = 1 + rng.below(3) as usize;
        let cols: Vec<&str> = (0..ncols).map(|_| *rng.pick(&["a", "b", "ab"])).collect();
        let nsegs = rng.below(4) as usize;
        let mut segs: Vec<String> = vec![];
        for i in 0..nsegs {
            let mut s = String::new();
            if rng.chance(4, 5) && i < cols.len() {
                s.push_str(if rng.chance(5, 6) { cols[i] } else { "zz" });
                if rng.chance(9, 10) {
                    s.push('=');
                }
            }
            for _ in 0..rng.below(5) {
                let piece: &str = *rng.pick::<&str>(raw_alpha.as_slice());
                s.push_str(piece);
            }
            if s.is_empty() || s == "." || s == ".." {
                s.push('w');
            }
            segs.push(s);
        }
        segs.push("f.parquet".into());
        let raw = format!("t/{}", segs.join("/"));
        let Ok(path) = Path::parse(&raw) else { continue };
        let parsed = parse_partitions_for_path(&url, &path, cols.clone());
        let ans = match &parsed {
            None => "none".to_string(),
            Some(v) => format!("({})", v.iter().map(|x| hex(x.as_bytes())).collect::<Vec<_>>().join(" ")),
        };
        let req = format!(
            "(({}) ({}))",
            cols.iter().map(|c| hex(c.as_bytes())).collect::<Vec<_>>().join(" "),
            segs.iter().map(|s| hex(s.as_bytes())).collect::<Vec<_>>().join(" ")
        );
        run.case("parse", &req, &ans, parsed.is_some() && nsegs > 0);
        run.count(if parsed.is_some() { "parse: some" } else { "parse: none" });
    }
}

// ------------------------------------------------------------------------------------------------
// (B) end-to-end
// ------------------------------------------------------------------------------------------------
#[derive(Clone, Debug)]
struct RowD {
    id: i64,
    s: Option<String>,
    b: Option<bool>,
    f: Option<f64>,
    p: Option<String>,
    q: Option<i64>,
}

fn cell_s(v: &Option<String>) -> String {
    match v {
        None => "N".into(),
        Some(s) => format!("S:{}", hex(s.as_bytes())),
    }
}
fn row_atoms(r: &RowD) -> Vec<String> {
    vec![
        format!("I:{}", r.id),
        cell_s(&r.s),
        match r.b { None => "N".into(), Some(b) => format!("B:{}", if b { "t" } else { "f" }) },
        match r.f { None => "N".into(), Some(f) => format!("F:{:016x}", f.to_bits()) },
        cell_s(&r.p),
        match r.q { None => "N".into(), Some(q) => format!("I:{q}") },
    ]
}
fn canon_row(r: &RowD, csv: bool) -> String {
    row_atoms(r).into_iter().map(|a| if csv && a == "S:x" { "N".to_string() } else { a }).collect::<Vec<_>>().join(" ")
}

fn make_batch(rows: &[RowD]) -> RecordBatch {
    let schema = Arc::new(Schema::new(vec![
        Field::new("id", DataType::Int64, false),
        Field::new("s", DataType::Utf8, true),
        Field::new("b", DataType::Boolean, true),
        Field::new("f", DataType::Float64, true),
        Field::new("p", DataType::Utf8, true),
        Field::new("q", DataType::Int64, true),
    ]));
    RecordBatch::try_new(
        schema,
        vec![
            Arc::new(Int64Array::from(rows.iter().map(|r| r.id).collect::<Vec<_>>())) as ArrayRef,
            Arc::new(StringArray::from(rows.iter().map(|r| r.s.clone()).collect::<Vec<_>>())),
            Arc::new(BooleanArray::from(rows.iter().map(|r| r.b).collect::<Vec<_>>())),
            Arc::new(Float64Array::from(rows.iter().map(|r| r.f).collect::<Vec<_>>())),
            Arc::new(StringArray::from(rows.iter().map(|r| r.p.clone()).collect::<Vec<_>>())),
            Arc::new(Int64Array::from(rows.iter().map(|r| r.q).collect::<Vec<_>>())),
        ],
    )
    .unwrap()
}

fn read_rows(batches: &[RecordBatch]) -> Result<Vec<RowD>, String> {
    let mut out = vec![];
    for b in batches {
        let get = |name: &str, ty: &DataType| -> Result<ArrayRef, String> {
            let c = b.column_by_name(name).ok_or_else(|| format!("column {name} missing in read-back schema {:?}", b.schema()))?;
            arrow::compute::cast(c, ty).map_err(|e| e.to_string())
        };
        let id = get("id", &DataType::Int64)?;
        let s = get("s", &DataType::Utf8)?;
        let bb = get("b", &DataType::Boolean)?;
        let f = get("f", &DataType::Float64)?;
        let p = get("p", &DataType::Utf8)?;
        let q = get("q", &DataType::Int64)?;
        let id = id.as_any().downcast_ref::<Int64Array>().unwrap();
        let s = s.as_any().downcast_ref::<StringArray>().unwrap();
        let bb = bb.as_any().downcast_ref::<BooleanArray>().unwrap();
        let f = f.as_any().downcast_ref::<Float64Array>().unwrap();
        let p = p.as_any().downcast_ref::<StringArray>().unwrap();
        let q = q.as_any().downcast_ref::<Int64Array>().unwrap();
        for i in 0..b.num_rows() {
            out.push(RowD {
                id: id.value(i),
                s: (!s.is_null(i)).then(|| s.value(i).to_string()),
                b: (!bb.is_null(i)).then(|| bb.value(i)),
                f: (!f.is_null(i)).then(|| f.value(i)),
                p: (!p.is_null(i)).then(|| p.value(i).to_string()),
                q: (!q.is_null(i)).then(|| q.value(i)),
            });
        }
    }
    Ok(out)
}

fn e2e(run: &mut Run, rng: &mut Rng, rt: &tokio::runtime::Runtime) {
    let n = run.budget(500, 6000);
    let formats = ["parquet", "csv", "json", "arrow"];
    for case_i in 0..n {
        let fmt = formats[(case_i % 4) as usize];
        let csv = fmt == "csv";
        let null_part = case_i % 9 == 8; // NULL partition values: separate stream
        let nrows = rng.below(9) as usize;
        let dyadic = [0.0, 1.0, -1.5, 0.25, 1e10, -0.0, 3.0];
        let rows: Vec<RowD> = (0..nrows)
            .map(|i| {
                let mut s = if rng.chance(1, 5) { None } else { Some(rand_string(rng)) };
                if let Some(x) = &s {
                    // CSV without `newlines_in_values`: no line breaks inside values (see notes/C25.md)
                    if (csv || fmt == "json") && (x.contains('\n') || x.contains('\r') || x.contains('\u{1}') || x.contains('\u{7f}')) {
                        s = Some("plain".into());
                    }
                }
                RowD {
                    id: i as i64,
                    s,
                    b: if rng.chance(1, 4) { None } else { Some(rng.chance(1, 2)) },
                    f: if rng.chance(1, 4) { None } else { Some(*rng.pick(&dyadic)) },
                    p: if null_part && rng.chance(1, 3) { None } else { Some(rng.pick(&NASTY[..19]).to_string()) },
                    q: if null_part && rng.chance(1, 3) { None } else { Some(rng.range(-2, 3)) },
                }
            })
            .collect();
        let parts: Vec<&str> = match rng.below(6) {
            0 | 1 => vec![],
            2 => vec!["p"],
            3 => vec!["q"],
            4 => vec!["p", "q"],
            _ => vec!["q", "p"],
        };
        let has_null_part = rows.iter().any(|r| (parts.contains(&"p") && r.p.is_none()) || (parts.contains(&"q") && r.q.is_none()));
        let how = ["copy", "dataframe", "insert"][rng.below(3) as usize];
        let how = if fmt == "arrow" && how == "dataframe" { "copy" } else { how };
        let compression = match fmt {
            "parquet" => *rng.pick(&["", "zstd(1)", "snappy", "uncompressed"]),
            "csv" | "json" => *rng.pick(&["", "", "gzip"]),
            _ => "",
        };
        let single = parts.is_empty() && rng.chance(1, 3) && how != "insert";
        let multi_cfg = rng.chance(1, 2);
        let repart_read = rng.chance(1, 2);

        // VARCHAR must mean the WRITTEN type (Utf8), not Utf8View: the table is read back "with the written schema"
        let mut cfg = SessionConfig::new()
            .with_target_partitions(if repart_read { 4 } else { 1 })
            .set_bool("datafusion.sql_parser.map_string_types_to_utf8view", false);
        if multi_cfg {
            cfg = cfg
                .set_usize("datafusion.execution.soft_max_rows_per_output_file", 2)
                .set_usize("datafusion.execution.minimum_parallel_output_files", 3);
        }
        if repart_read {
            cfg = cfg.set_usize("datafusion.optimizer.repartition_file_min_size", 1);
        }
        let ctx = SessionContext::new_with_config(cfg);
        let store = Arc::new(InMemory::new());
        ctx.register_object_store(&url::Url::parse("mem://b").unwrap(), Arc::clone(&store) as Arc<dyn ObjectStore>);
        ctx.register_batch("src", make_batch(&rows)).unwrap();

        let ext = match (fmt, compression) {
            ("csv", "gzip") => "csv.gz",
            ("json", "gzip") => "json.gz",
            (f, _) => f,
        };
        // a quarter of the runs go to the local filesystem instead of the in-memory object store
        let local = case_i % 7 == 3;
        let tmp = tempfile::tempdir().unwrap();
        let base = if local { format!("{}/t", tmp.path().display()) } else { "mem://b/t".to_string() };
        if local {
            std::fs::create_dir_all(&base).unwrap();
        }
        let loc = if single { format!("{base}/out.{ext}") } else { format!("{base}/") };
        let stored = fmt.to_uppercase();
        let all_cols = [("id", "BIGINT"), ("s", "VARCHAR"), ("b", "BOOLEAN"), ("f", "DOUBLE"), ("p", "VARCHAR"), ("q", "BIGINT")];
        let file_cols: Vec<(&str, &str)> = all_cols.iter().filter(|c| !parts.contains(&c.0)).cloned().collect();
        let part_cols: Vec<(&str, &str)> = parts.iter().map(|p| *all_cols.iter().find(|c| c.0 == *p).unwrap()).collect();
        let decl: Vec<String> = file_cols.iter().chain(part_cols.iter()).map(|(n, t)| format!("{n} {t}")).collect();
        let mut read_opts: Vec<String> = vec![];
        if csv {
            read_opts.push("'format.has_header' 'true'".into());
        }
        if compression == "gzip" {
            read_opts.push("'format.compression' 'gzip'".into());
        }
        let ddl = format!(
            "CREATE EXTERNAL TABLE r ({}) STORED AS {stored} {} LOCATION '{loc}' {}",
            decl.join(", "),
            if parts.is_empty() { String::new() } else { format!("PARTITIONED BY ({})", parts.join(", ")) },
            if read_opts.is_empty() { String::new() } else { format!("OPTIONS ({})", read_opts.join(", ")) },
        );
        let desc = format!(
            "fmt={fmt} how={how} store={} compression={compression:?} partition_by={parts:?} single={single} small_files={multi_cfg} repartitioned_read={repart_read}",
            if local { "local" } else { "memory" }
        );
        let sig_rows = rows.iter().map(|r| canon_row(r, false)).collect::<Vec<_>>().join(";");

        let result: Result<Vec<RecordBatch>, String> = rt.block_on(async {
            let e = |x: datafusion_common::DataFusionError| x.to_string();
            match how {
                "copy" => {
                    let mut opts = vec![];
                    if !compression.is_empty() {
                        opts.push(format!("'format.compression' '{compression}'"));
                    }
                    let q = format!(
                        "COPY (SELECT * FROM src) TO '{loc}' STORED AS {stored} {} {}",
                        if parts.is_empty() { String::new() } else { format!("PARTITIONED BY ({})", parts.join(", ")) },
                        if opts.is_empty() { String::new() } else { format!("OPTIONS ({})", opts.join(", ")) },
                    );
                    ctx.sql(&q).await.map_err(e)?.collect().await.map_err(|x| format!("write: {x}"))?;
                    ctx.sql(&ddl).await.map_err(e)?.collect().await.map_err(e)?;
                }
                "dataframe" => {
                    let df = ctx.table("src").await.map_err(e)?;
                    let wo = DataFrameWriteOptions::new()
                        .with_partition_by(parts.iter().map(|s| s.to_string()).collect())
                        .with_single_file_output(single);
                    match fmt {
                        "parquet" => {
                            let mut o = datafusion_common::config::TableParquetOptions::default();
                            if !compression.is_empty() {
                                o.global.compression = Some(compression.to_string());
                            }
                            df.write_parquet(&loc, wo, Some(o)).await.map_err(|x| format!("write: {x}"))?;
                        }
                        "csv" => {
                            let mut o = datafusion_common::config::CsvOptions::default();
                            if compression == "gzip" {
                                o.compression = datafusion_common::parsers::CompressionTypeVariant::GZIP;
                            }
                            df.write_csv(&loc, wo, Some(o)).await.map_err(|x| format!("write: {x}"))?;
                        }
                        _ => {
                            let mut o = datafusion_common::config::JsonOptions::default();
                            if compression == "gzip" {
                                o.compression = datafusion_common::parsers::CompressionTypeVariant::GZIP;
                            }
                            df.write_json(&loc, wo, Some(o)).await.map_err(|x| format!("write: {x}"))?;
                        }
                    }
                    ctx.sql(&ddl).await.map_err(e)?.collect().await.map_err(e)?;
                }
                _ => {
                    ctx.sql(&ddl).await.map_err(e)?.collect().await.map_err(e)?;
                    let sel: Vec<&str> = file_cols.iter().chain(part_cols.iter()).map(|c| c.0).collect();
                    let q = format!("INSERT INTO r SELECT {} FROM src", sel.join(", "));
                    ctx.sql(&q).await.map_err(e)?.collect().await.map_err(|x| format!("write: {x}"))?;
                }
            }
            ctx.sql("SELECT id, s, b, f, p, q FROM r").await.map_err(e)?.collect().await.map_err(|x| format!("read: {x}"))
        });

        run.count(&format!("e2e {fmt}/{how}"));
        run.count(if local { "e2e on LocalFileSystem" } else { "e2e on InMemory" });
        if !parts.is_empty() {
            run.count("e2e partitioned");
        }
        match result.and_then(|b| read_rows(&b)) {
            Err(e) if has_null_part && e.starts_with("write:") => {
                // a NULL partition value rejected at write time is a clean failure, not a wrong read-back
                run.count("e2e NULL partition value rejected by the writer");
                let _ = e;
            }
            Err(e) => {
                run.oracle(false, &format!("c25 e2e error {desc} err={}", e.chars().take(120).collect::<String>()), &format!("{e}; rows={sig_rows}"));
            }
            Ok(got) => {
                let mut w: Vec<String> = rows.iter().map(|r| canon_row(r, csv)).collect();
                let mut g: Vec<String> = got.iter().map(|r| canon_row(r, csv)).collect();
                w.sort();
                g.sort();
                // classify: exactly "NULL partition cell read back as the slot default" (the known defect) or anything else
                let kind = if has_null_part && w != g {
                    let mut d: Vec<String> = rows
                        .iter()
                        .map(|r| {
                            let mut r2 = r.clone();
                            if parts.contains(&"p") && r2.p.is_none() {
                                r2.p = Some(String::new());
                            }
                            if parts.contains(&"q") && r2.q.is_none() {
                                r2.q = Some(0);
                            }
                            canon_row(&r2, csv)
                        })
                        .collect();
                    d.sort();
                    if d == g { "null-partition-value-read-as-default" } else { "rows" }
                } else {
                    "rows"
                };
                let first_diff = w.iter().zip(g.iter()).find(|(a, b)| a != b).map(|(a, b)| format!("written `{a}` read `{b}`")).unwrap_or_else(|| format!("{} rows written, {} read", w.len(), g.len()));
                run.oracle(
                    w == g,
                    &format!("c25 e2e {kind} {desc} diff={}", first_diff.chars().take(160).collect::<String>()),
                    &format!("written rows [{}] read back [{}]", w.join(";"), g.join(";")),
                );
                if !has_null_part {
                    // (K) Lean judges the bags
                    let show = |rs: &[RowD]| format!("({})", rs.iter().map(|r| format!("({})", row_atoms(r).join(" "))).collect::<Vec<_>>().join(" "));
                    run.case("bag", &format!("({} {} {})", if csv { "csv" } else { "plain" }, show(&rows), show(&got)), "ok", !rows.is_empty());
                    // (K) demux: partition key → ids, as observed
                    if !parts.is_empty() && w == g {
                        let mut by_key: BTreeMap<String, Vec<i64>> = BTreeMap::new();
                        for r in &got {
                            let key: Vec<String> = parts.iter().map(|c| if *c == "p" { hex(r.p.clone().unwrap_or_default().as_bytes()) } else { hex(r.q.unwrap_or(0).to_string().as_bytes()) }).collect();
                            by_key.entry(key.join(",")).or_default().push(r.id);
                        }
                        let mut strs: Vec<String> = by_key
                            .into_iter()
                            .map(|(k, mut ids)| {
                                let mut idss: Vec<String> = ids.drain(..).map(|i| i.to_string()).collect();
                                idss.sort();
                                format!("{k}:{}", idss.join(","))
                            })
                            .collect();
                        strs.sort();
                        let tys: Vec<&str> = parts.iter().map(|c| if *c == "p" { "utf8" } else { "int" }).collect();
                        let rws: Vec<String> = rows
                            .iter()
                            .map(|r| {
                                let cells: Vec<String> = parts
                                    .iter()
                                    .map(|c| if *c == "p" { format!("(s {})", hex(r.p.clone().unwrap().as_bytes())) } else { format!("(i {})", r.q.unwrap()) })
                                    .collect();
                                format!("({} {})", r.id, cells.join(" "))
                            })
                            .collect();
                        run.case("demux", &format!("(({}) ({}))", tys.join(" "), rws.join(" ")), &strs.join(" "), rows.len() > 1);
                    }
                }
            }
        }
        // number of files actually written (distribution only)
        let nfiles = rt.block_on(async { store.list(None).try_collect::<Vec<_>>().await.map(|v| v.len()).unwrap_or(0) });
        run.count(&format!("files written: {}", match nfiles { 0 => "0", 1 => "1", 2..=4 => "2-4", _ => "5+" }));
    }
}

pub fn run(run: &mut Run, args: &Args) {
    let mut rng = Rng::new(args.seed);
    let rt = tokio::runtime::Builder::new_current_thread().enable_all().build().unwrap();
    codecs(run, &mut rng);
    e2e(run, &mut rng, &rt);
    e2e_extra(run, &mut rng, &rt);
}

/// Two shapes the main e2e stream does not reach: (A) every text codec with and without an explicit
/// compression level; (B) two STRING partition columns whose values contain the path separator, so
/// that distinct value tuples share one '/'-joined string. Implementation-level oracle: the read-back
/// multiset equals the written one.
fn e2e_extra(run: &mut Run, rng: &mut Rng, rt: &tokio::runtime::Runtime) {
    let mk_ctx = || {
        let cfg = SessionConfig::new().with_target_partitions(1).set_bool("datafusion.sql_parser.map_string_types_to_utf8view", false);
        let ctx = SessionContext::new_with_config(cfg);
        let store = Arc::new(InMemory::new());
        ctx.register_object_store(&url::Url::parse("mem://b").unwrap(), Arc::clone(&store) as Arc<dyn ObjectStore>);
        ctx
    };
    let collect3 = |batches: &[RecordBatch]| -> Result<Vec<String>, String> {
        let mut out = vec![];
        for b in batches {
            let c = |i: usize, t: &DataType| arrow::compute::cast(b.column(i), t).map_err(|e| e.to_string());
            let (id, x, y) = (c(0, &DataType::Int64)?, c(1, &DataType::Utf8)?, c(2, &DataType::Utf8)?);
            let id = id.as_any().downcast_ref::<Int64Array>().unwrap().clone();
            let x = x.as_any().downcast_ref::<StringArray>().unwrap().clone();
            let y = y.as_any().downcast_ref::<StringArray>().unwrap().clone();
            for i in 0..b.num_rows() {
                let f = |a: &StringArray| if a.is_null(i) { "NULL".to_string() } else { format!("x{}", hex(a.value(i).as_bytes())) };
                out.push(format!("{}|{}|{}", id.value(i), f(&x), f(&y)));
            }
        }
        out.sort();
        Ok(out)
    };
    let batch3 = |rows: &[(i64, String, String)]| {
        let schema = Arc::new(Schema::new(vec![Field::new("id", DataType::Int64, false), Field::new("a", DataType::Utf8, false), Field::new("b", DataType::Utf8, false)]));
        RecordBatch::try_new(
            schema,
            vec![
                Arc::new(Int64Array::from(rows.iter().map(|r| r.0).collect::<Vec<_>>())) as ArrayRef,
                Arc::new(StringArray::from(rows.iter().map(|r| r.1.clone()).collect::<Vec<_>>())),
                Arc::new(StringArray::from(rows.iter().map(|r| r.2.clone()).collect::<Vec<_>>())),
            ],
        )
        .unwrap()
    };
    let want_of = |rows: &[(i64, String, String)]| {
        let mut w: Vec<String> = rows.iter().map(|r| format!("{}|x{}|x{}", r.0, hex(r.1.as_bytes()), hex(r.2.as_bytes()))).collect();
        w.sort();
        w
    };

    // ---- (A) codec x explicit level
    let words = ["alpha", "b,c", "d\"q", "", "é", "long long long long long long long long"];
    let reps = run.budget(1, 4);
    for rep in 0..reps {
        for fmt in ["csv", "json"] {
            for (codec, ext) in [("gzip", "gz"), ("bzip2", "bz2"), ("xz", "xz"), ("zstd", "zst")] {
                for level in [None, Some(1u32), Some(3), Some(6)] {
                    let nrows = 1 + rng.below(12) as usize;
                    let rows: Vec<(i64, String, String)> = (0..nrows).map(|i| (i as i64, format!("w{}", rng.pick(&words)), format!("v{}", rng.pick(&words)))).collect();
                    let ctx = mk_ctx();
                    ctx.register_batch("src", batch3(&rows)).unwrap();
                    let stored = fmt.to_uppercase();
                    let mut wopts = vec![format!("'format.compression' '{codec}'")];
                    if let Some(l) = level {
                        wopts.push(format!("'format.compression_level' '{l}'"));
                    }
                    let mut ropts = vec![format!("'format.compression' '{codec}'")];
                    if fmt == "csv" {
                        ropts.push("'format.has_header' 'true'".into());
                    }
                    let copy = format!("COPY (SELECT * FROM src) TO 'mem://b/t/' STORED AS {stored} OPTIONS ({})", wopts.join(", "));
                    let ddl = format!("CREATE EXTERNAL TABLE r (id BIGINT, a VARCHAR, b VARCHAR) STORED AS {stored} LOCATION 'mem://b/t/' OPTIONS ({})", ropts.join(", "));
                    let res: Result<Vec<RecordBatch>, String> = rt.block_on(async {
                        let e = |x: datafusion_common::DataFusionError| x.to_string();
                        ctx.sql(&copy).await.map_err(e)?.collect().await.map_err(|x| format!("write: {x}"))?;
                        ctx.sql(&ddl).await.map_err(e)?.collect().await.map_err(e)?;
                        ctx.sql("SELECT id, a, b FROM r").await.map_err(e)?.collect().await.map_err(|x| format!("read: {x}"))
                    });
                    run.count(&format!("codec {fmt}/{codec}/{}", if level.is_some() { "explicit-level" } else { "default-level" }));
                    let sig = format!("c25 e2e-codec fmt={fmt} codec={codec} level={level:?} rep={rep}");
                    match res.and_then(|b| collect3(&b)) {
                        Ok(got) => {
                            let want = want_of(&rows);
                            run.oracle(got == want, &sig, &format!("written {want:?} read back {got:?}"));
                        }
                        Err(m) => run.oracle(false, &sig, &format!("written with {copy:?}, reading back fails: {}", m.chars().take(300).collect::<String>())),
                    }
                }
            }
        }
    }

    // ---- (B) two string partition columns, values with '/'
    let vals = ["x", "y/z", "x/y", "z", "y", "x/y/z", "z/", "/x", "a=b", "x/a=b"];
    let n = run.budget(60, 1200);
    for case_i in 0..n {
        let fmt = ["parquet", "csv", "json"][(case_i % 3) as usize];
        let nrows = 2 + rng.below(8) as usize;
        let mut rows: Vec<(i64, String, String)> = (0..nrows).map(|i| (i as i64, rng.pick(&vals).to_string(), rng.pick(&vals).to_string())).collect();
        if rng.chance(1, 2) && nrows >= 2 {
            // force a collision of the joined key: (u, v/w) and (u/v, w)
            let (u, v, w) = (*rng.pick(&["x", "y", "z"]), *rng.pick(&["x", "y", "z"]), *rng.pick(&["x", "y", "z"]));
            rows[0].1 = u.to_string();
            rows[0].2 = format!("{v}/{w}");
            rows[1].1 = format!("{u}/{v}");
            rows[1].2 = w.to_string();
        }
        let mut joined = std::collections::BTreeMap::<String, std::collections::BTreeSet<(String, String)>>::new();
        for r in &rows {
            joined.entry(format!("{}/{}", r.1, r.2)).or_default().insert((r.1.clone(), r.2.clone()));
        }
        run.count(if joined.values().any(|s| s.len() > 1) { "2part: distinct tuples share a joined key" } else { "2part: joined keys distinct" });
        let ctx = mk_ctx();
        ctx.register_batch("src", batch3(&rows)).unwrap();
        let stored = fmt.to_uppercase();
        let copy = format!("COPY (SELECT * FROM src) TO 'mem://b/t/' STORED AS {stored} PARTITIONED BY (a, b)");
        let ddl = format!(
            "CREATE EXTERNAL TABLE r (id BIGINT, a VARCHAR, b VARCHAR) STORED AS {stored} PARTITIONED BY (a, b) LOCATION 'mem://b/t/' {}",
            if fmt == "csv" { "OPTIONS ('format.has_header' 'true')" } else { "" }
        );
        let res: Result<Vec<RecordBatch>, String> = rt.block_on(async {
            let e = |x: datafusion_common::DataFusionError| x.to_string();
            ctx.sql(&copy).await.map_err(e)?.collect().await.map_err(|x| format!("write: {x}"))?;
            ctx.sql(&ddl).await.map_err(e)?.collect().await.map_err(e)?;
            ctx.sql("SELECT id, a, b FROM r").await.map_err(e)?.collect().await.map_err(|x| format!("read: {x}"))
        });
        let want = want_of(&rows);
        let sig = format!("c25 e2e-2part fmt={fmt} rows={}", want.join(";"));
        match res.and_then(|b| collect3(&b)) {
            Ok(got) => run.oracle(got == want, &sig, &format!("written {rows:?} read back {got:?}")),
            Err(m) => run.oracle(false, &sig, &format!("written {rows:?}: {}", m.chars().take(300).collect::<String>())),
        }
    }
}
