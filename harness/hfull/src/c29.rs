//! C29 — statistics reported as exact are exact.
//! (A) Tie (K, refinement) for the `Precision` layer: real `Precision<usize>::{add,sub,multiply,
//!     min,max,to_inexact}` and `Statistics::with_fetch` on boundary values; the request carries the
//!     impl's answer, the Lean model answers `ok` iff impl Exact(v) ⇒ model Exact(v).
//! (B) Oracle (implementation level, node by node): for every node of physical plans built from SQL
//!     over multi-partition MemTables, and of hand-built limit/sort/coalesce plans:
//!     `StatisticsContext::compute(node, partition = None | Some(i))`; every statistic reported
//!     `Exact` (num_rows, per column null_count / min / max / sum / distinct_count) must equal the value
//!     computed from the rows the executed sub-plan really produces.
use std::collections::BTreeSet;
use std::sync::Arc;

use arrow::array::{Array, ArrayRef, Int64Array, RecordBatch};
use arrow::compute::cast;
use arrow::datatypes::{DataType, Field, Schema, SchemaRef};
use datafusion::datasource::MemTable;
use datafusion::physical_plan::{ExecutionPlan, displayable};
use datafusion::prelude::*;
use datafusion_common::stats::Precision;
use datafusion_common::{ColumnStatistics, ScalarValue, Statistics};
use datafusion_datasource::memory::MemorySourceConfig;
use datafusion_physical_expr::expressions::col;
use datafusion_physical_expr::{LexOrdering, PhysicalSortExpr};
use datafusion_physical_plan::coalesce_partitions::CoalescePartitionsExec;
use datafusion_physical_plan::limit::{GlobalLimitExec, LocalLimitExec};
use datafusion_physical_plan::sorts::sort::SortExec;
use datafusion_physical_plan::sorts::sort_preserving_merge::SortPreservingMergeExec;
use datafusion_physical_plan::statistics::{StatisticsArgs, StatisticsContext};
use futures::StreamExt;
use hutil::{Args, Rng, Run};

fn sp(p: &Precision<usize>) -> String {
    match p {
        Precision::Exact(n) => format!("(e {n})"),
        Precision::Inexact(n) => format!("(i {n})"),
        Precision::Absent => "a".into(),
    }
}

fn precision_layer(run: &mut Run, rng: &mut Rng) {
    let m = usize::MAX;
    let mut vals = vec![0usize, 1, 2, 5, m - 1, m, m / 2, m / 2 + 1, 1 << 32, (1 << 32) - 1];
    for _ in 0..run.budget(4, 40) {
        vals.push(rng.below(20) as usize);
        vals.push(rng.next() as usize);
    }
    let mut ps: Vec<Precision<usize>> = vec![Precision::Absent];
    for v in &vals {
        ps.push(Precision::Exact(*v));
        ps.push(Precision::Inexact(*v));
    }
    for a in &ps {
        let r = a.clone().to_inexact();
        run.case("inexact", &format!("({} {})", sp(a), sp(&r)), "ok", true);
        run.oracle(!matches!(r, Precision::Exact(_)), &format!("to_inexact-exact a={}", sp(a)), "");
        for b in &ps {
            for (name, r) in [("add", a.add(b)), ("sub", a.sub(b)), ("mul", a.multiply(b)), ("min", a.min(b)), ("max", a.max(b))] {
                let nontrivial = matches!((a, b), (Precision::Exact(_), Precision::Exact(_)));
                run.case("op", &format!("({name} {} {} {})", sp(a), sp(b), sp(&r)), "ok", nontrivial);
                run.count(&format!("precision/{name}/{}", match r { Precision::Exact(_) => "exact", Precision::Inexact(_) => "inexact", _ => "absent" }));
                // direct oracle: an Exact result equals the true (unbounded) result of exact operands
                if let (Precision::Exact(x), Precision::Exact(y), Precision::Exact(v)) = (a, b, &r) {
                    let (x, y, v) = (*x as u128, *y as u128, *v as u128);
                    let truth: Option<u128> = match name {
                        "add" => Some(x + y),
                        "sub" => x.checked_sub(y),
                        "mul" => Some(x * y),
                        "min" => Some(x.min(y)),
                        _ => Some(x.max(y)),
                    };
                    run.oracle(truth == Some(v), &format!("precision-op-exact-wrong op={name} a={} b={}", sp(a), sp(b)), &format!("result {} but the true value is {truth:?}", sp(&r)));
                } else if matches!(r, Precision::Exact(_)) {
                    run.oracle(false, &format!("precision-op-invents-exact op={name} a={} b={}", sp(a), sp(b)), &format!("result {}", sp(&r)));
                }
            }
        }
    }
    // Statistics::with_fetch (num_rows)
    let fetches: Vec<Option<usize>> = vec![None, Some(0), Some(1), Some(3), Some(10), Some(m), Some(m / 2 + 1)];
    let skips = [0usize, 1, 3, 10, m, m - 1];
    let nparts = [1usize, 1, 2, 4, m];
    let rows: Vec<Precision<usize>> = vec![
        Precision::Absent, Precision::Exact(0), Precision::Exact(1), Precision::Exact(3), Precision::Exact(4), Precision::Exact(10), Precision::Exact(13),
        Precision::Exact(m), Precision::Exact(m - 1), Precision::Inexact(0), Precision::Inexact(3), Precision::Inexact(10), Precision::Inexact(m),
    ];
    for r in &rows {
        for f in &fetches {
            for s in skips {
                for np in nparts {
                    let st = Statistics { num_rows: r.clone(), total_byte_size: Precision::Absent, column_statistics: vec![ColumnStatistics::new_unknown()] };
                    let Ok(Ok(out)) = hutil::catch(std::panic::AssertUnwindSafe(|| st.with_fetch(*f, s, np))) else {
                        run.count("with_fetch/err-or-panic");
                        continue;
                    };
                    let fs = f.map(|x| x.to_string()).unwrap_or("n".into());
                    run.case("fetch", &format!("({} {fs} {s} {np} {})", sp(r), sp(&out.num_rows)), "ok", matches!(r, Precision::Exact(_)));
                    if np == 1 {
                        if let Precision::Exact(v) = out.num_rows {
                            let truth = match r {
                                Precision::Exact(n) => Some(n.saturating_sub(s).min(f.unwrap_or(m))),
                                _ => None,
                            };
                            run.oracle(truth == Some(v), &format!("with_fetch-exact-wrong rows={} fetch={fs} skip={s}", sp(r)), &format!("num_rows {} but LIMIT produces {truth:?}", sp(&out.num_rows)));
                        }
                    }
                }
            }
        }
    }
}

// ------------------------------------------------------------------ (B) node-by-node

pub(crate) fn schema3() -> SchemaRef {
    Arc::new(Schema::new(vec![
        Field::new("a", DataType::Int64, true),
        Field::new("b", DataType::Int64, true),
        Field::new("c", DataType::Int64, false),
    ]))
}

pub(crate) fn gen_table(rng: &mut Rng, schema: &SchemaRef, max_parts: u64) -> Vec<Vec<RecordBatch>> {
    let nparts = 1 + rng.below(max_parts) as usize;
    (0..nparts)
        .map(|_| {
            let nb = rng.below(3) as usize;
            (0..nb)
                .map(|_| {
                    let n = rng.below(6) as usize;
                    let a: Vec<Option<i64>> = (0..n).map(|_| if rng.chance(1, 5) { None } else { Some(rng.range(-3, 3)) }).collect();
                    let b: Vec<Option<i64>> = (0..n).map(|_| if rng.chance(1, 8) { None } else { Some(rng.range(0, 9)) }).collect();
                    let c: Vec<i64> = (0..n).map(|_| rng.range(-100, 100)).collect();
                    RecordBatch::try_new(Arc::clone(schema), vec![Arc::new(Int64Array::from(a)), Arc::new(Int64Array::from(b)), Arc::new(Int64Array::from(c))]).unwrap()
                })
                .collect()
        })
        .collect()
}

fn queries(rng: &mut Rng) -> Vec<String> {
    let k = rng.range(0, 7);
    let j = rng.range(0, 4);
    let v = rng.range(-3, 3);
    vec![
        "SELECT * FROM t1".into(),
        "SELECT a, b + 1 AS d, c FROM t1".into(),
        format!("SELECT * FROM t1 WHERE a > {v}"),
        "SELECT * FROM t1 WHERE a IS NULL".into(),
        "SELECT * FROM t1 WHERE false".into(),
        format!("SELECT * FROM t1 LIMIT {k}"),
        format!("SELECT * FROM t1 LIMIT {k} OFFSET {j}"),
        format!("SELECT * FROM t1 OFFSET {j}"),
        format!("SELECT * FROM t1 ORDER BY a, c LIMIT {k}"),
        format!("SELECT * FROM t1 ORDER BY c DESC LIMIT {k} OFFSET {j}"),
        "SELECT a, c FROM t1 ORDER BY c".into(),
        format!("SELECT * FROM (SELECT * FROM t1 LIMIT {k}) WHERE b > 2"),
        format!("SELECT * FROM (SELECT * FROM t1 WHERE b > 2) LIMIT {k}"),
        "SELECT * FROM t1 UNION ALL SELECT * FROM t2".into(),
        format!("SELECT * FROM t1 UNION ALL SELECT * FROM t2 LIMIT {k}"),
        "SELECT a FROM t1 UNION SELECT a FROM t2".into(),
        "SELECT t1.a, t2.b FROM t1 CROSS JOIN t2".into(),
        format!("SELECT t1.a, t2.b FROM t1 CROSS JOIN t2 LIMIT {k}"),
        "SELECT t1.a, t1.c, t2.b FROM t1 JOIN t2 ON t1.a = t2.a".into(),
        "SELECT t1.a, t1.c, t2.b FROM t1 LEFT JOIN t2 ON t1.a = t2.a".into(),
        "SELECT t1.a, t1.c, t2.b FROM t1 FULL JOIN t2 ON t1.b = t2.b".into(),
        "SELECT t1.a FROM t1 WHERE t1.a IN (SELECT a FROM t2)".into(),
        "SELECT t1.a FROM t1 WHERE NOT EXISTS (SELECT 1 FROM t2 WHERE t2.a = t1.a)".into(),
        "SELECT count(*) FROM t1".into(),
        "SELECT count(*), count(a), min(a), max(a), min(c), max(c) FROM t1".into(),
        "SELECT count(*), min(b) FROM t1 WHERE a > 0".into(),
        "SELECT a, count(*), sum(c) FROM t1 GROUP BY a".into(),
        format!("SELECT a, count(*) FROM t1 GROUP BY a ORDER BY a LIMIT {k}"),
        "SELECT DISTINCT a FROM t1".into(),
        format!("SELECT DISTINCT a, b FROM t1 LIMIT {k}"),
        "SELECT a, row_number() OVER (ORDER BY c) FROM t1".into(),
        "SELECT count(*) FROM (SELECT * FROM t1 UNION ALL SELECT * FROM t2)".into(),
        format!("SELECT count(*) FROM (SELECT * FROM t1 LIMIT {k})"),
        "SELECT min(a), max(a) FROM (SELECT a FROM t1 UNION ALL SELECT a FROM t2)".into(),
    ]
}

pub(crate) fn node_at(plan: &Arc<dyn ExecutionPlan>, path: &[usize]) -> Arc<dyn ExecutionPlan> {
    let mut p = Arc::clone(plan);
    for i in path {
        let c = Arc::clone(p.children()[*i]);
        p = c;
    }
    p
}
pub(crate) fn all_paths(plan: &Arc<dyn ExecutionPlan>, prefix: Vec<usize>, out: &mut Vec<Vec<usize>>) {
    out.push(prefix.clone());
    for (i, c) in plan.children().iter().enumerate() {
        let mut p = prefix.clone();
        p.push(i);
        all_paths(c, p, out);
    }
}

/// what the executed rows really are, per column (Int64-castable columns only)
struct Actual {
    rows: usize,
    cols: Vec<Option<Vec<Option<i64>>>>,
}
fn actual_of(schema: &SchemaRef, batches: &[RecordBatch]) -> Actual {
    let rows = batches.iter().map(|b| b.num_rows()).sum();
    let cols = (0..schema.fields().len())
        .map(|j| {
            let mut v = vec![];
            for b in batches {
                let arr: ArrayRef = cast(b.column(j), &DataType::Int64).ok()?;
                let arr = arr.as_any().downcast_ref::<Int64Array>()?.clone();
                for i in 0..arr.len() {
                    v.push(if arr.is_null(i) { None } else { Some(arr.value(i)) });
                }
            }
            Some(v)
        })
        .collect();
    Actual { rows, cols }
}
fn sv_i64(v: &ScalarValue) -> Option<Option<i64>> {
    match v.cast_to(&DataType::Int64).ok()? {
        ScalarValue::Int64(x) => Some(x),
        _ => None,
    }
}

fn check(run: &mut Run, what: &str, node: &str, attrs: &str, part: &str, plan_txt: &str, stats: &Statistics, act: &Actual, below: &BTreeSet<String>, failed: &mut BTreeSet<String>) {
    let mut fail = |run: &mut Run, stat: &str, ok: bool, claimed: String, real: String| {
        // a wrong Exact claim somewhere below this node (estimators mix statistics, e.g. cross join
        // null_count = null_count x other side's num_rows): this one is counted as a consequence
        let inherited = !below.is_empty();
        if !ok {
            failed.insert(stat.to_string());
        }
        run.oracle(
            ok,
            &format!("exact-stat-wrong{} node={node} {attrs} stat={stat} scope={part} src={what}", if inherited { "-inherited" } else { "" }),
            &format!("{stat} reported {claimed} but the executed node produced {real}; plan: {plan_txt}"),
        );
        if !ok {
            run.count(&format!("wrong/{node}/{stat}/{part}"));
        }
    };
    match &stats.num_rows {
        Precision::Exact(n) => {
            run.count("exact/num_rows");
            fail(run, "num_rows", *n == act.rows, format!("Exact({n})"), act.rows.to_string());
        }
        Precision::Inexact(_) => run.count("inexact/num_rows"),
        Precision::Absent => run.count("absent/num_rows"),
    }
    for (j, cs) in stats.column_statistics.iter().enumerate() {
        let Some(Some(vals)) = act.cols.get(j) else { continue };
        let nn: Vec<i64> = vals.iter().flatten().copied().collect();
        if let Precision::Exact(n) = &cs.null_count {
            run.count("exact/null_count");
            let real = vals.len() - nn.len();
            fail(run, "null_count", *n == real, format!("Exact({n})"), real.to_string());
        }
        if let Precision::Exact(v) = &cs.min_value {
            run.count("exact/min");
            if let Some(c) = sv_i64(v) {
                let real = nn.iter().min().copied();
                fail(run, "min", c == real, format!("Exact({v})"), format!("{real:?}"));
            }
        }
        if let Precision::Exact(v) = &cs.max_value {
            run.count("exact/max");
            if let Some(c) = sv_i64(v) {
                let real = nn.iter().max().copied();
                fail(run, "max", c == real, format!("Exact({v})"), format!("{real:?}"));
            }
        }
        if let Precision::Exact(v) = &cs.sum_value {
            run.count("exact/sum");
            if let Some(c) = sv_i64(v) {
                let real: i128 = nn.iter().map(|x| *x as i128).sum();
                let ok = match c {
                    Some(c) => c as i128 == real,
                    None => nn.is_empty(),
                };
                fail(run, "sum", ok, format!("Exact({v})"), real.to_string());
            }
        }
        if let Precision::Exact(n) = &cs.distinct_count {
            run.count("exact/distinct");
            // both conventions accepted: NULL not counted / counted as one more value
            let real = nn.iter().collect::<BTreeSet<_>>().len();
            let real_with_null = real + usize::from(nn.len() < vals.len());
            fail(run, "distinct_count", *n == real || *n == real_with_null, format!("Exact({n})"), format!("{real} (or {real_with_null} counting NULL)"));
        }
    }
}

pub(crate) async fn exec_node(node: Arc<dyn ExecutionPlan>, ctx: &SessionContext, part: Option<usize>) -> Result<Vec<RecordBatch>, String> {
    // generous deadline: only there to turn a hang into a counted, reported event
    match tokio::time::timeout(std::time::Duration::from_secs(6), exec_node_inner(node, ctx, part)).await {
        Ok(r) => r,
        Err(_) => Err("timeout".into()),
    }
}

async fn exec_node_inner(node: Arc<dyn ExecutionPlan>, ctx: &SessionContext, part: Option<usize>) -> Result<Vec<RecordBatch>, String> {
    let task = ctx.task_ctx();
    let parts: Vec<usize> = match part {
        Some(i) => vec![i],
        None => (0..node.properties().partitioning.partition_count()).collect(),
    };
    let mut out = vec![];
    for p in parts {
        let mut s = node.execute(p, Arc::clone(&task)).map_err(|e| e.to_string())?;
        while let Some(b) = s.next().await {
            out.push(b.map_err(|e| e.to_string())?);
        }
    }
    Ok(out)
}

pub(crate) fn mem_exec(parts: &[Vec<RecordBatch>], schema: &SchemaRef) -> Arc<dyn ExecutionPlan> {
    MemorySourceConfig::try_new_exec(parts, Arc::clone(schema), None).unwrap()
}

fn hand_plans(rng: &mut Rng, t1: &[Vec<RecordBatch>], schema: &SchemaRef) -> Vec<(String, Arc<dyn ExecutionPlan>)> {
    let k = 1 + rng.below(6) as usize; // TopK asserts k > 0 (the planner never builds fetch=0 sorts)
    let j = rng.below(4) as usize;
    let ord = || LexOrdering::new(vec![PhysicalSortExpr::new_default(col("c", schema).unwrap())]).unwrap();
    let m = || mem_exec(t1, schema);
    vec![
        ("local-limit".into(), Arc::new(LocalLimitExec::new(m(), k)) as Arc<dyn ExecutionPlan>),
        ("global(coalesce(local-limit))".into(), Arc::new(GlobalLimitExec::new(Arc::new(CoalescePartitionsExec::new(Arc::new(LocalLimitExec::new(m(), k + j)))), j, Some(k)))),
        ("coalesce-fetch".into(), Arc::new(CoalescePartitionsExec::new(m()).with_fetch(Some(k)))),
        ("sort-preserve-partitioning-fetch".into(), Arc::new(SortExec::new(ord(), m()).with_preserve_partitioning(true).with_fetch(Some(k)))),
        ("spm-fetch(sort-preserve)".into(), Arc::new(SortPreservingMergeExec::new(ord(), Arc::new(SortExec::new(ord(), m()).with_preserve_partitioning(true))).with_fetch(Some(k)))),
        ("sort-fetch".into(), Arc::new(SortExec::new(ord(), Arc::new(CoalescePartitionsExec::new(m()))).with_fetch(Some(k)))),
        ("global-limit-skip".into(), Arc::new(GlobalLimitExec::new(Arc::new(CoalescePartitionsExec::new(m())), j, None))),
    ]
}

pub fn run(run: &mut Run, args: &Args) {
    let mut rng = Rng::new(args.seed);
    precision_layer(run, &mut rng);

    let rt = tokio::runtime::Builder::new_current_thread().enable_all().build().unwrap();
    let schema = schema3();
    let rounds = run.budget(6, 150);
    for _ in 0..rounds {
        let t1 = gen_table(&mut rng, &schema, 4);
        let t2 = gen_table(&mut rng, &schema, 3);
        let tp = 1 + rng.below(4) as usize;
        let cfg = SessionConfig::new().with_target_partitions(tp).with_batch_size(1 + rng.below(8) as usize);
        let ctx = SessionContext::new_with_config(cfg);
        ctx.register_table("t1", Arc::new(MemTable::try_new(Arc::clone(&schema), t1.clone()).unwrap())).unwrap();
        ctx.register_table("t2", Arc::new(MemTable::try_new(Arc::clone(&schema), t2.clone()).unwrap())).unwrap();

        // (what, plan factory)
        let mut plans: Vec<(String, Box<dyn Fn() -> Option<Arc<dyn ExecutionPlan>>>)> = vec![];
        for q in queries(&mut rng) {
            let ctx2 = ctx.clone();
            let q2 = q.clone();
            let h = rt.handle().clone();
            plans.push((
                format!("sql:{q}"),
                Box::new(move || h.block_on(async { ctx2.sql(&q2).await.ok()?.create_physical_plan().await.ok() })),
            ));
        }
        let hp_seed = rng.next();
        let n_hand = hand_plans(&mut Rng(hp_seed), &t1, &schema).len();
        for i in 0..n_hand {
            let (t1c, sc) = (t1.clone(), Arc::clone(&schema));
            let name = hand_plans(&mut Rng(hp_seed), &t1, &schema)[i].0.clone();
            plans.push((format!("hand:{name}"), Box::new(move || Some(Arc::clone(&hand_plans(&mut Rng(hp_seed), &t1c, &sc)[i].1)))));
        }

        for (what, mk) in &plans {
            let Some(root) = mk() else {
                run.count("plan-error");
                continue;
            };
            run.count("plans");
            let mut paths: Vec<Vec<usize>> = vec![];
            all_paths(&root, vec![], &mut paths);
            let plan_txt = displayable(root.as_ref()).indent(false).to_string().replace('\n', " | ");
            // children before parents, so that consequences of a wrong claim can be told apart
            paths.sort_by_key(|p| std::cmp::Reverse(p.len()));
            let mut failed_at: Vec<(Vec<usize>, BTreeSet<String>)> = vec![];
            for path in &paths {
                let mut below: BTreeSet<String> = BTreeSet::new();
                for (p, f) in &failed_at {
                    if p.len() > path.len() && p[..path.len()] == path[..] {
                        below.extend(f.iter().cloned());
                    }
                }
                let mut failed_here: BTreeSet<String> = BTreeSet::new();
                let node0 = node_at(&root, path);
                let name = node0.name().to_string();
                let nparts = node0.properties().partitioning.partition_count();
                let mut scopes: Vec<Option<usize>> = vec![None];
                scopes.extend((0..nparts).map(Some));
                for scope in scopes {
                    // fresh plan for every execution (operators keep state across executions)
                    let Some(fresh) = mk() else { continue };
                    let node = node_at(&fresh, path);
                    let sctx = StatisticsContext::new();
                    let stats = match hutil::catch(std::panic::AssertUnwindSafe(|| sctx.compute(node.as_ref(), &StatisticsArgs::new().with_partition(scope)))) {
                        Ok(Ok(s)) => s,
                        _ => {
                            run.count("stats-error");
                            continue;
                        }
                    };
                    let batches = match hutil::catch(std::panic::AssertUnwindSafe(|| rt.block_on(exec_node(Arc::clone(&node), &ctx, scope)))).unwrap_or(Err("panic".into())) {
                        Ok(b) => b,
                        Err(e) => {
                            run.count(if e == "timeout" { "exec-timeout" } else { "exec-error" });
                            continue;
                        }
                    };
                    let act = actual_of(&node.schema(), &batches);
                    run.count(&format!("node/{name}"));
                    let ptxt = match scope {
                        None => "all".to_string(),
                        Some(_) => "partition".to_string(),
                    };
                    let src = if what.starts_with("hand:") { what.as_str() } else { "sql" };
                    let attrs = format!("fetch={} multi={}", if node.fetch().is_some() { "t" } else { "f" }, if nparts > 1 { "t" } else { "f" });
                    check(run, src, &name, &attrs, &ptxt, &format!("[{what}] node path {path:?} scope {scope:?} :: {plan_txt}"), &stats, &act, &below, &mut failed_here);
                    // limit nodes: tie the real with_fetch call to the model through the node's input
                    if let Some(child) = node.children().first() {
                        if name == "GlobalLimitExec" || name == "LocalLimitExec" {
                            if let Ok(Ok(cs)) = hutil::catch(std::panic::AssertUnwindSafe(|| StatisticsContext::new().compute(child.as_ref(), &StatisticsArgs::new().with_partition(scope)))) {
                                let (fetch, skip) = if let Some(g) = node.downcast_ref::<GlobalLimitExec>() { (g.fetch(), g.skip()) } else { (node.fetch(), 0) };
                                let fs = fetch.map(|x| x.to_string()).unwrap_or("n".into());
                                run.case("fetch", &format!("({} {fs} {skip} 1 {})", sp(&cs.num_rows), sp(&stats.num_rows)), "ok", true);
                            }
                        }
                    }
                }
                failed_at.push((path.clone(), failed_here));
            }
        }
    }
    run.note("tables: 1..4 / 1..3 partitions x 0..2 batches x 0..5 rows, Int64 columns with NULLs; target_partitions 1..4; 34 SQL templates (scan, projection, filter, limit/offset, sort+limit, union [all], cross/inner/left/full join, semi/anti, aggregates, distinct, window) + 7 hand-built limit/sort/coalesce plans; every node x {all partitions, each partition}");
}
