//! C18 — memory-limited queries are exact or fail cleanly, and release everything.
//!
//! Implementation-level oracle on the real engine (`run.oracle`):
//!   query shapes (sort, single-column sort, group by, distinct, hash join, sort-merge join,
//!   nested-loop join, window) over generated tables × pool policy (greedy / fair) × memory limits
//!   swept from tiny to ample × ADVERSARIAL pool oracles (a wrapper `MemoryPool` that denies the k-th
//!   `try_grow`, or each `try_grow` with probability p) × spill codec × merge fan-in ×
//!   `max_spill_file_size_bytes` × disk limit × target partitions × batch size:
//!     * the result equals the unlimited result, OR the error's `find_root()` is `ResourcesExhausted`;
//!     * no panic, no hang (deadline);
//!     * afterwards `pool.reserved() == 0` and `DiskManager::used_disk_space() == 0` — also when the
//!       stream is dropped after k batches.
//! Model-level correspondence (`run.case`):
//!   * `sort`   — `SELECT v FROM t ORDER BY v` unlimited == Lean `sortRows` (the reference the theorem
//!                `extSort_exact_or_resources` speaks about);
//!   * `judge`  — every limited / adversarial run of that query is judged by the Lean side
//!                (`rows = sortRows input ∨ resources`);
//!   * `ledger` — the sequence of calls the real pool saw (recorded by the wrapper) replayed through
//!                the model's ghost pool counter == the real inner pool's `reserved()`, no underflow.
use std::fmt;
use std::sync::atomic::{AtomicU64, AtomicUsize, Ordering};
use std::sync::{Arc, Mutex};
use std::time::Duration;

use arrow::array::{ArrayRef, Int64Array, RecordBatch, StringArray};
use arrow::datatypes::{DataType, Field, Schema, SchemaRef};
use datafusion::datasource::MemTable;
use datafusion::execution::runtime_env::RuntimeEnvBuilder;
use datafusion::prelude::{SessionConfig, SessionContext};
use datafusion_common::{DataFusionError, Result};
use datafusion_execution::disk_manager::{DiskManagerBuilder, DiskManagerMode};
use datafusion_execution::memory_pool::{
    FairSpillPool, GreedyMemoryPool, MemoryConsumer, MemoryLimit, MemoryPool, MemoryReservation, UnboundedMemoryPool,
};
use futures::StreamExt;
use hutil::{Args, Rng, Run};

// ------------------------------------------------------------------ the adversarial pool

#[derive(Clone, Debug)]
enum Script {
    /// never interfere (only record)
    Pass,
    /// deny exactly the k-th `try_grow` (0-based)
    DenyAt(usize),
    /// deny every `try_grow` from the k-th on
    DenyFrom(usize),
    /// deny each `try_grow` independently with probability num/den (own PRNG stream)
    DenyRandom(u64, u64, u64),
}

#[derive(Debug)]
struct OraclePool {
    inner: Arc<dyn MemoryPool>,
    script: Script,
    calls: AtomicUsize,
    rng: AtomicU64,
    denied: AtomicUsize,
    /// (kind, bytes, granted) — recorded under the same lock as the inner call
    trace: Mutex<Vec<(u8, usize, bool)>>,
}
impl fmt::Display for OraclePool {
    fn fmt(&self, f: &mut fmt::Formatter<'_>) -> fmt::Result {
        write!(f, "OraclePool({})", self.inner)
    }
}
impl OraclePool {
    fn new(inner: Arc<dyn MemoryPool>, script: Script) -> Self {
        let seed = if let Script::DenyRandom(_, _, s) = &script { *s } else { 0 };
        OraclePool { inner, script, calls: AtomicUsize::new(0), rng: AtomicU64::new(seed), denied: AtomicUsize::new(0), trace: Mutex::new(vec![]) }
    }
    fn deny(&self, k: usize) -> bool {
        match &self.script {
            Script::Pass => false,
            Script::DenyAt(n) => k == *n,
            Script::DenyFrom(n) => k >= *n,
            Script::DenyRandom(num, den, _) => {
                // splitmix step on a shared atomic (the order of concurrent callers is whatever it is:
                // the oracle is adversarial anyway; nothing observable depends on it)
                let x = self.rng.fetch_add(0x9E37_79B9_7F4A_7C15, Ordering::Relaxed).wrapping_add(0x9E37_79B9_7F4A_7C15);
                let mut z = x;
                z = (z ^ (z >> 30)).wrapping_mul(0xBF58_476D_1CE4_E5B9);
                z = (z ^ (z >> 27)).wrapping_mul(0x94D0_49BB_1331_11EB);
                z ^= z >> 31;
                z % den < *num
            }
        }
    }
}
impl MemoryPool for OraclePool {
    fn name(&self) -> &str {
        "verif-oracle"
    }
    fn register(&self, c: &MemoryConsumer) {
        self.inner.register(c)
    }
    fn unregister(&self, c: &MemoryConsumer) {
        self.inner.unregister(c)
    }
    fn grow(&self, r: &MemoryReservation, additional: usize) {
        let mut t = self.trace.lock().unwrap();
        self.inner.grow(r, additional);
        t.push((b'g', additional, true));
    }
    fn shrink(&self, r: &MemoryReservation, shrink: usize) {
        let mut t = self.trace.lock().unwrap();
        self.inner.shrink(r, shrink);
        t.push((b's', shrink, true));
    }
    fn try_grow(&self, r: &MemoryReservation, additional: usize) -> Result<()> {
        let mut t = self.trace.lock().unwrap();
        let k = self.calls.fetch_add(1, Ordering::Relaxed);
        if self.deny(k) {
            self.denied.fetch_add(1, Ordering::Relaxed);
            t.push((b't', additional, false));
            return Err(DataFusionError::ResourcesExhausted(format!(
                "verif oracle pool: denied try_grow #{k} of {additional} bytes for {}",
                r.consumer().name()
            )));
        }
        let res = self.inner.try_grow(r, additional);
        t.push((b't', additional, res.is_ok()));
        res
    }
    fn reserved(&self) -> usize {
        self.inner.reserved()
    }
    fn memory_limit(&self) -> MemoryLimit {
        self.inner.memory_limit()
    }
}

// ------------------------------------------------------------------ data and queries

struct Data {
    t: Vec<Vec<RecordBatch>>, // partitions of batches: t(k, v, s)
    u: Vec<Vec<RecordBatch>>, // u(k, w)
    v_all: Vec<i64>,          // column v of t (non-null), all rows — input of the Lean `sort` op
    desc: String,
}

fn t_schema() -> SchemaRef {
    Arc::new(Schema::new(vec![
        Field::new("k", DataType::Int64, true),
        Field::new("v", DataType::Int64, false),
        Field::new("s", DataType::Utf8, true),
    ]))
}
fn u_schema() -> SchemaRef {
    Arc::new(Schema::new(vec![Field::new("k", DataType::Int64, true), Field::new("w", DataType::Int64, false)]))
}

fn gen_data(rng: &mut Rng, big: bool) -> Data {
    let rows = if big { *rng.pick(&[600usize, 1500, 4000]) } else { *rng.pick(&[0usize, 1, 40, 200, 600]) };
    let nkeys = *rng.pick(&[1i64, 3, 17, 200]);
    let parts = *rng.pick(&[1usize, 2, 3]);
    let bsz = *rng.pick(&[7usize, 50, 333]);
    let strlen = *rng.pick(&[0usize, 3, 40]);
    let mut v_all = vec![];
    let mut mk_t = |rng: &mut Rng, n: usize| -> RecordBatch {
        let k: Int64Array = (0..n).map(|_| if rng.chance(1, 9) { None } else { Some(rng.range(0, nkeys - 1)) }).collect();
        let v: Vec<i64> = (0..n).map(|_| rng.range(-50, 5000)).collect();
        v_all.extend_from_slice(&v);
        let s: Vec<Option<String>> = (0..n)
            .map(|_| if rng.chance(1, 7) { None } else { Some((0..strlen).map(|_| (b'a' + rng.below(4) as u8) as char).collect()) })
            .collect();
        RecordBatch::try_new(t_schema(), vec![Arc::new(k) as ArrayRef, Arc::new(Int64Array::from(v)), Arc::new(StringArray::from(s))]).unwrap()
    };
    let mut t = vec![vec![]; parts];
    let mut left = rows;
    let mut p = 0;
    while left > 0 {
        let n = left.min(1 + rng.below(bsz as u64) as usize);
        let b = mk_t(rng, n);
        t[p % parts].push(b);
        p += 1;
        left -= n;
    }
    if rng.chance(1, 3) {
        // an empty batch somewhere
        t[0].push(RecordBatch::new_empty(t_schema()));
    }
    let urows = if rows == 0 { 5 } else { (rows / 4).max(1).min(300) };
    let uk: Int64Array = (0..urows).map(|_| if rng.chance(1, 9) { None } else { Some(rng.range(0, nkeys)) }).collect();
    let uw: Vec<i64> = (0..urows).map(|_| rng.range(0, 5000)).collect();
    let ub = RecordBatch::try_new(u_schema(), vec![Arc::new(uk) as ArrayRef, Arc::new(Int64Array::from(uw))]).unwrap();
    let half = urows / 2;
    let u = vec![vec![ub.slice(0, half), ub.slice(half, urows - half)]];
    Data { t, u, v_all, desc: format!("rows={rows} keys={nkeys} parts={parts} maxbatch={bsz} strlen={strlen}") }
}

#[derive(Clone, Copy, Debug, PartialEq)]
enum Shape {
    Sort1,
    SortAll,
    GroupBy,
    Distinct,
    HashJoin,
    MergeJoin,
    NlJoin,
    Window,
}
const SHAPES: [Shape; 8] =
    [Shape::Sort1, Shape::SortAll, Shape::GroupBy, Shape::Distinct, Shape::HashJoin, Shape::MergeJoin, Shape::NlJoin, Shape::Window];

impl Shape {
    fn sql(self) -> &'static str {
        match self {
            Shape::Sort1 => "SELECT v FROM t ORDER BY v",
            Shape::SortAll => "SELECT k, v, s FROM t ORDER BY k NULLS FIRST, v DESC, s",
            Shape::GroupBy => "SELECT k, count(*), sum(v), min(s), max(v) FROM t GROUP BY k",
            Shape::Distinct => "SELECT DISTINCT k, s FROM t",
            Shape::HashJoin | Shape::MergeJoin => "SELECT t.k, t.v, u.w FROM t JOIN u ON t.k = u.k",
            Shape::NlJoin => "SELECT t.v, u.w FROM t JOIN u ON t.v < u.w - 4900",
            Shape::Window => "SELECT k, v, sum(v) OVER (PARTITION BY k ORDER BY v) FROM t",
        }
    }
    /// is the row order of the result determined by the query?
    fn ordered(self) -> bool {
        matches!(self, Shape::Sort1 | Shape::SortAll)
    }
}

#[derive(Clone, Debug)]
struct Knobs {
    fair: bool,
    limit: Option<usize>,
    script: Script,
    partitions: usize,
    batch_size: usize,
    spill_reserve: usize,
    in_place: usize,
    codec: &'static str,
    fan_in: usize,
    max_spill_file: usize,
    disk_limit: Option<u64>,
    disk_off: bool,
    drop_after: Option<usize>,
    multi_thread: bool,
}

impl Knobs {
    fn sig(&self) -> String {
        format!(
            "pool={} limit={:?} script={:?} parts={} batch={} reserve={} inplace={} codec={} fanin={} maxspill={} disk={:?}{} drop={:?} rt={}",
            if self.fair { "fair" } else { "greedy" },
            self.limit,
            self.script,
            self.partitions,
            self.batch_size,
            self.spill_reserve,
            self.in_place,
            self.codec,
            self.fan_in,
            self.max_spill_file,
            self.disk_limit,
            if self.disk_off { "/off" } else { "" },
            self.drop_after,
            if self.multi_thread { "mt2" } else { "ct" }
        )
    }
}

fn rows_of(b: &RecordBatch) -> Vec<String> {
    use arrow::util::display::{ArrayFormatter, FormatOptions};
    let opt = FormatOptions::default().with_null("NULL");
    let fs: Vec<_> = b.columns().iter().map(|c| ArrayFormatter::try_new(c.as_ref(), &opt).unwrap()).collect();
    (0..b.num_rows()).map(|r| fs.iter().map(|f| f.value(r).to_string()).collect::<Vec<_>>().join("|")).collect()
}

enum Outcome {
    Rows(Vec<String>),
    Dropped(Vec<String>),
    Resources(String),
    OtherErr(String),
}

struct RunResult {
    outcome: Outcome,
    reserved_after: usize,
    disk_after: u64,
    waited_ms: u64,
    trace: Vec<(u8, usize, bool)>,
    inner_reserved: usize,
    denied: usize,
    try_grows: usize,
}

fn is_resources(e: &DataFusionError) -> bool {
    matches!(e.find_root(), DataFusionError::ResourcesExhausted(_))
}

fn build_ctx(data: &Data, shape: Shape, k: &Knobs) -> (SessionContext, Arc<OraclePool>) {
    let inner: Arc<dyn MemoryPool> = match (k.limit, k.fair) {
        (None, _) => Arc::new(UnboundedMemoryPool::default()),
        (Some(l), false) => Arc::new(GreedyMemoryPool::new(l)),
        (Some(l), true) => Arc::new(FairSpillPool::new(l)),
    };
    let pool = Arc::new(OraclePool::new(inner, k.script.clone()));
    let mut dmb = DiskManagerBuilder::default()
        .with_mode(if k.disk_off { DiskManagerMode::Disabled } else { DiskManagerMode::OsTmpDirectory })
        .with_max_spill_merge_fan_in(k.fan_in);
    if let Some(d) = k.disk_limit {
        dmb = dmb.with_max_temp_directory_size(d);
    }
    let rt = RuntimeEnvBuilder::new().with_memory_pool(pool.clone() as Arc<dyn MemoryPool>).with_disk_manager_builder(dmb).build_arc().unwrap();
    let mut cfg = SessionConfig::new()
        .with_target_partitions(k.partitions)
        .with_batch_size(k.batch_size)
        .with_sort_spill_reservation_bytes(k.spill_reserve)
        .with_sort_in_place_threshold_bytes(k.in_place)
        .set_str("datafusion.execution.spill_compression", k.codec)
        .set_usize("datafusion.execution.max_spill_file_size_bytes", k.max_spill_file);
    if shape == Shape::MergeJoin {
        cfg = cfg.set_bool("datafusion.optimizer.prefer_hash_join", false);
    }
    let ctx = SessionContext::new_with_config_rt(cfg, rt);
    ctx.register_table("t", Arc::new(MemTable::try_new(t_schema(), data.t.clone()).unwrap())).unwrap();
    ctx.register_table("u", Arc::new(MemTable::try_new(u_schema(), data.u.clone()).unwrap())).unwrap();
    (ctx, pool)
}

const DEADLINE: Duration = Duration::from_secs(60);
const SETTLE: Duration = Duration::from_secs(15);

/// run one query under `k` on its own thread + runtime; `None` = hang (deadline exceeded)
fn run_query(data: &Arc<Data>, shape: Shape, k: &Knobs) -> Option<std::result::Result<RunResult, String>> {
    let (tx, rx) = std::sync::mpsc::channel();
    let data = data.clone();
    let k = k.clone();
    std::thread::spawn(move || {
        let r = hutil::catch(std::panic::AssertUnwindSafe(|| {
            let rt = if k.multi_thread {
                tokio::runtime::Builder::new_multi_thread().worker_threads(2).enable_all().build().unwrap()
            } else {
                tokio::runtime::Builder::new_current_thread().enable_all().build().unwrap()
            };
            let (ctx, pool) = build_ctx(&data, shape, &k);
            let env = ctx.runtime_env();
            let res = rt.block_on(async {
                let outcome = async {
                    let df = ctx.sql(shape.sql()).await?;
                    let mut stream = df.execute_stream().await?;
                    let mut rows = vec![];
                    let mut nb = 0usize;
                    loop {
                        if let Some(d) = k.drop_after {
                            if nb >= d {
                                drop(stream);
                                return Ok::<_, DataFusionError>(Outcome::Dropped(rows));
                            }
                        }
                        match stream.next().await {
                            None => break,
                            Some(b) => {
                                rows.extend(rows_of(&b?));
                                nb += 1;
                            }
                        }
                    }
                    drop(stream);
                    Ok(Outcome::Rows(rows))
                }
                .await;
                let outcome = match outcome {
                    Ok(o) => o,
                    Err(e) => {
                        if is_resources(&e) {
                            Outcome::Resources(e.to_string())
                        } else {
                            Outcome::OtherErr(format!("{e} / root: {:?}", e.find_root()))
                        }
                    }
                };
                // everything is finished or dropped: wait (bounded) for background tasks to be torn down
                let t0 = std::time::Instant::now();
                loop {
                    if (pool.reserved() == 0 && env.disk_manager.used_disk_space() == 0) || t0.elapsed() > SETTLE {
                        break;
                    }
                    tokio::time::sleep(Duration::from_millis(2)).await;
                }
                RunResult {
                    outcome,
                    reserved_after: pool.reserved(),
                    disk_after: env.disk_manager.used_disk_space(),
                    waited_ms: t0.elapsed().as_millis() as u64,
                    trace: vec![],
                    inner_reserved: 0,
                    denied: pool.denied.load(Ordering::Relaxed),
                    try_grows: pool.calls.load(Ordering::Relaxed),
                }
            });
            drop(ctx);
            drop(rt);
            let mut res = res;
            res.trace = std::mem::take(&mut *pool.trace.lock().unwrap());
            res.inner_reserved = pool.inner.reserved();
            res
        }));
        let _ = tx.send(r);
    });
    match rx.recv_timeout(DEADLINE) {
        Ok(r) => Some(r),
        Err(_) => None,
    }
}

fn ints_sexp(xs: &[i64]) -> String {
    let mut s = String::from("(");
    for (i, x) in xs.iter().enumerate() {
        if i > 0 {
            s.push(' ');
        }
        s.push_str(&x.to_string());
    }
    s.push(')');
    s
}

fn base_knobs() -> Knobs {
    Knobs {
        fair: false,
        limit: None,
        script: Script::Pass,
        partitions: 1,
        batch_size: 64,
        spill_reserve: 0,
        in_place: 1 << 20,
        codec: "uncompressed",
        fan_in: 0,
        max_spill_file: 128 << 20,
        disk_limit: None,
        disk_off: false,
        drop_after: None,
        multi_thread: false,
    }
}

fn random_knobs(rng: &mut Rng, try_grows_unlimited: usize, peak: usize) -> Knobs {
    let mut k = base_knobs();
    k.fair = rng.chance(1, 2);
    k.partitions = *rng.pick(&[1usize, 1, 2, 4]);
    k.batch_size = *rng.pick(&[8usize, 64, 1000, 8192]);
    k.spill_reserve = *rng.pick(&[0usize, 0, 1024, 16 * 1024, 10 << 20]);
    k.in_place = *rng.pick(&[0usize, 4096, 1 << 20]);
    k.codec = *rng.pick(&["uncompressed", "lz4_frame", "zstd"]);
    k.fan_in = *rng.pick(&[0usize, 2, 2, 3, 16]);
    k.max_spill_file = *rng.pick(&[1usize, 4096, 128 << 20]);
    k.multi_thread = rng.chance(1, 3);
    match rng.below(10) {
        // real limits, swept geometrically from tiny to ample (relative to the unlimited peak)
        0..=4 => {
            let peak = peak.max(2048);
            let frac = *rng.pick(&[1usize, 2, 4, 8, 16, 32, 64, 128, 400]);
            k.limit = Some(match rng.below(6) {
                0 => *rng.pick(&[0usize, 1, 100, 1024]),
                1 => peak * 3,
                _ => peak * 2 / frac + 1,
            });
        }
        // adversarial oracles on top of an ample (or unlimited) inner pool
        5..=8 => {
            let n = try_grows_unlimited.max(4);
            k.script = match rng.below(4) {
                0 => Script::DenyAt(rng.below(n as u64 + 2) as usize),
                1 => Script::DenyFrom(rng.below(n as u64 + 2) as usize),
                _ => {
                    let den = *rng.pick(&[2u64, 4, 16, 64, 256]);
                    Script::DenyRandom(1, den, rng.next())
                }
            };
            if rng.chance(1, 3) {
                k.limit = Some(peak.max(2048) * 2);
            }
        }
        // disk limit / disk off together with a limit that forces spilling
        _ => {
            k.limit = Some(peak.max(2048) / *rng.pick(&[2usize, 4, 16]) + 1);
            if rng.chance(1, 3) {
                k.disk_off = true;
            } else {
                k.disk_limit = Some(*rng.pick(&[0u64, 512, 8 * 1024, 256 * 1024]));
            }
        }
    }
    if rng.chance(1, 4) {
        k.drop_after = Some(*rng.pick(&[0usize, 1, 2, 5]));
    }
    k
}

pub fn run(run: &mut Run, args: &Args) {
    hutil::quiet_panics();
    let mut rng = Rng::new(args.seed);
    let n_data = run.budget(10, 60);
    let runs_per_shape = run.budget(4, 12);
    let mut case_no = 0u64;
    for di in 0..n_data {
        let big = di % 2 == 1;
        let data = Arc::new(gen_data(&mut rng, big));
        // a subset of shapes per data set in the quick tier, all of them in the thorough tier
        let mut shapes: Vec<Shape> = SHAPES.to_vec();
        if !run.thorough() {
            let off = (di as usize * 3) % SHAPES.len();
            shapes = (0..4).map(|i| SHAPES[(off + i * 3) % SHAPES.len()]).collect();
            shapes.dedup();
            if !shapes.contains(&Shape::Sort1) && di % 2 == 0 {
                shapes.push(Shape::Sort1);
            }
        }
        for shape in shapes {
            // ---- baseline: unlimited, recording pool
            let bk = base_knobs();
            let base = match run_query(&data, shape, &bk) {
                Some(Ok(r)) => r,
                Some(Err(p)) => {
                    run.oracle(false, &format!("baseline panic shape={shape:?} data[{}]", data.desc), &p);
                    continue;
                }
                None => {
                    run.oracle(false, &format!("baseline hang shape={shape:?} data[{}]", data.desc), "unlimited run exceeded the deadline");
                    continue;
                }
            };
            let mut base_rows = match base.outcome {
                Outcome::Rows(r) => r,
                Outcome::Resources(e) | Outcome::OtherErr(e) => {
                    run.oracle(false, &format!("baseline error shape={shape:?} data[{}]", data.desc), &e);
                    continue;
                }
                Outcome::Dropped(_) => unreachable!(),
            };
            if !shape.ordered() {
                base_rows.sort();
            }
            let peak = {
                let (mut cur, mut pk) = (0usize, 0usize);
                for (kind, n, ok) in &base.trace {
                    match (*kind, *ok) {
                        (b's', _) => cur = cur.saturating_sub(*n),
                        (_, true) => {
                            cur += n;
                            pk = pk.max(cur)
                        }
                        _ => {}
                    }
                }
                pk
            };
            if shape == Shape::Sort1 && data.v_all.len() <= 700 {
                // the engine's unlimited ORDER BY against the Lean reference
                let got: Vec<i64> = base_rows.iter().map(|r| r.parse().unwrap()).collect();
                run.case("sort", &ints_sexp(&data.v_all), &format!("rows:{}", ints_sexp(&got)), data.v_all.len() >= 2);
            }
            // ---- limited / adversarial / dropped runs
            for _ in 0..runs_per_shape {
                case_no += 1;
                let k = random_knobs(&mut rng, base.try_grows, peak);
                let sig = format!("shape={shape:?} data[{}] {}", data.desc, k.sig());
                run.count(&format!("shape_{shape:?}"));
                run.count(match (&k.script, k.limit, k.disk_limit.is_some() || k.disk_off) {
                    (_, _, true) => "kind_disk_limited",
                    (Script::Pass, _, _) => "kind_real_limit",
                    _ => "kind_adversarial_oracle",
                });
                run.count(if k.fair { "pool_fair" } else { "pool_greedy" });
                if k.drop_after.is_some() {
                    run.count("dropped_after_k");
                }
                let r = match run_query(&data, shape, &k) {
                    None => {
                        run.count("outcome_hang");
                        run.oracle(false, &format!("hang {sig}"), "no result within the deadline (60 s)");
                        continue;
                    }
                    Some(Err(p)) => {
                        run.count("outcome_panic");
                        run.oracle(false, &format!("panic {sig}"), &p);
                        continue;
                    }
                    Some(Ok(r)) => r,
                };
                // (1) exact or resources
                let (ok1, detail1, judged) = match &r.outcome {
                    Outcome::Rows(rows) => {
                        run.count(if r.denied > 0 || r.trace.iter().any(|x| x.0 == b't' && !x.2) { "outcome_rows_despite_denials" } else { "outcome_rows" });
                        let mut rows = rows.clone();
                        if !shape.ordered() {
                            rows.sort();
                        }
                        let ok = rows == base_rows;
                        let d = if ok {
                            String::new()
                        } else {
                            let i = rows.iter().zip(base_rows.iter()).position(|(a, b)| a != b).unwrap_or(rows.len().min(base_rows.len()));
                            format!(
                                "result differs from the unlimited result: {} vs {} rows; first difference at #{i}: got {:?} want {:?}",
                                rows.len(),
                                base_rows.len(),
                                rows.get(i),
                                base_rows.get(i)
                            )
                        };
                        (ok, d, Some(format!("(rows {})", rows.join(" "))))
                    }
                    Outcome::Dropped(prefix) => {
                        run.count("outcome_dropped");
                        // for ordered queries the streamed prefix must be a prefix of the full result
                        let ok = !shape.ordered() || (prefix.len() <= base_rows.len() && prefix[..] == base_rows[..prefix.len()]);
                        (ok, "rows streamed before the drop are not a prefix of the unlimited result".to_string(), None)
                    }
                    Outcome::Resources(_) => {
                        run.count("outcome_resources");
                        (true, String::new(), Some("resources".to_string()))
                    }
                    Outcome::OtherErr(e) => {
                        run.count("outcome_other_error");
                        // reported by the oracle below (with its class); the Lean judge only sees rows / resources
                        (false, format!("error whose root cause is not ResourcesExhausted: {e}"), None)
                    }
                };
                // the class of the recorded finding (notes/C18.md) gets its own signature prefix
                let class = if !ok1 && detail1.contains("The used disk space during the spilling process has exceeded the allowable limit") {
                    run.count("disk_limit_surfaced_as_arrow_io_error");
                    "exact-or-resources[disk-limit-as-io-error]"
                } else if !ok1 && detail1.contains("hash aggregate ran out of memory with no aggregated groups") {
                    run.count("agg_oom_without_groups_surfaced_as_internal_error");
                    "exact-or-resources[agg-oom-no-groups-internal]"
                } else {
                    "exact-or-resources"
                };
                run.oracle(ok1, &format!("{class} {sig}"), &detail1);
                // (2) everything released
                run.oracle(
                    r.reserved_after == 0,
                    &format!("reserved-after {sig}"),
                    &format!("pool.reserved() = {} after the stream was finished/dropped (waited {} ms)", r.reserved_after, r.waited_ms),
                );
                run.oracle(
                    r.disk_after == 0,
                    &format!("disk-after {sig}"),
                    &format!("DiskManager::used_disk_space() = {} after the stream was finished/dropped (waited {} ms)", r.disk_after, r.waited_ms),
                );
                // (3) model-level: judge + ledger replay
                if shape == Shape::Sort1 && data.v_all.len() <= 700 {
                    if let Some(j) = judged {
                        run.case("judge", &format!("({} {})", ints_sexp(&data.v_all), j), "ok", r.denied > 0 || k.limit.is_some());
                    }
                }
                if r.trace.len() <= 6000 {
                    let mut req = String::from("(");
                    for (i, (kind, n, ok)) in r.trace.iter().enumerate() {
                        if i > 0 {
                            req.push(' ');
                        }
                        match *kind {
                            b'g' => req.push_str(&format!("(g {n})")),
                            b's' => req.push_str(&format!("(s {n})")),
                            _ => req.push_str(&format!("(t {n} {})", if *ok { "t" } else { "f" })),
                        }
                    }
                    req.push(')');
                    let (mut cur, mut pk) = (0usize, 0usize);
                    for (kind, n, ok) in &r.trace {
                        match (*kind, *ok) {
                            (b's', _) => cur = cur.saturating_sub(*n),
                            (_, true) => {
                                cur += n;
                                pk = pk.max(cur)
                            }
                            _ => {}
                        }
                    }
                    // impl side: the REAL inner pool's counter after everything was dropped; the peak is
                    // recomputed from the trace (the pool does not expose it) and only pins the format
                    run.case("ledger", &req, &format!("reserved:{} peak:{pk} underflow:false", r.inner_reserved), r.trace.len() >= 4 && r.try_grows > 0);
                } else {
                    run.count("ledger_trace_too_long");
                }
                let _ = case_no;
            }
        }
    }
}
