//! C51 — the command-line client splits scripts at semicolons outside literals / quoted
//! identifiers; CSV / TSV / JSON / NDJSON output can be parsed back to the values.
//!
//! (a) hook H4 `datafusion_cli::helper::verif_split_from_semicolon` vs the Lean model
//!     `Text.Split.splitFromSemicolon` (equality), oracle: an independent look-ahead SQL lexer
//!     written here (`spec_split`).
//! (b) `PrintFormat::{Csv,Tsv}.print_batches` on result sets of string / int columns with NULLs,
//!     separators, quotes, CR/LF, unicode, empty strings, with and without header vs the Lean
//!     writer model (equality on the whole output text); the Lean reference reader is run on the
//!     real output (`csvdec`); oracles: an independent RFC-4180 reader written here returns the
//!     values; NULL and '' must not print identically (known finding).
//! (c) `PrintFormat::{Json,NdJson}.print_batches`: every string's JSON encoding vs the Lean
//!     escaping model (`jstr`), Lean decoder on the real text (`jdec`); oracle: an independent JSON
//!     reader written here returns the values (missing key = NULL).
use std::sync::Arc;

use arrow::array::{ArrayRef, Int64Array, RecordBatch, StringArray};
use arrow::datatypes::{DataType, Field, Schema, SchemaRef};
use datafusion::config::FormatOptions;
use datafusion_cli::helper::verif_split_from_semicolon;
use datafusion_cli::print_format::PrintFormat;
use datafusion_cli::print_options::MaxRows;
use hutil::{Args, Rng, Run};

fn cps(s: &str) -> String {
    let v: Vec<String> = s.chars().map(|c| (c as u32).to_string()).collect();
    format!("({})", v.join(" "))
}

fn show_pieces(ps: &[String]) -> String {
    if ps.is_empty() {
        "-".into()
    } else {
        ps.iter().map(|p| cps(p)).collect::<Vec<_>>().join(" ")
    }
}

// ------------------------------------------------------------------ (a) splitting

/// independent specification lexer: statements end at `;` outside '…' (with '') and "…" (with "")
fn spec_split(s: &str) -> Vec<String> {
    let cs: Vec<char> = s.chars().collect();
    let mut out = vec![];
    let mut cur = String::new();
    let mut i = 0;
    let flush = |cur: &mut String, out: &mut Vec<String>, clear: bool| {
        let t = cur.trim();
        if !t.is_empty() {
            out.push(format!("{t};"));
            if clear {
                cur.clear();
            }
        }
    };
    while i < cs.len() {
        let c = cs[i];
        if c == ';' {
            flush(&mut cur, &mut out, true);
            i += 1;
        } else if c == '\'' || c == '"' {
            // consume a whole literal / quoted identifier
            cur.push(c);
            i += 1;
            loop {
                if i >= cs.len() {
                    break;
                }
                if cs[i] == c {
                    if i + 1 < cs.len() && cs[i + 1] == c {
                        cur.push(c);
                        cur.push(c);
                        i += 2;
                        continue;
                    }
                    cur.push(c);
                    i += 1;
                    break;
                }
                cur.push(cs[i]);
                i += 1;
            }
        } else {
            cur.push(c);
            i += 1;
        }
    }
    flush(&mut cur, &mut out, false);
    out
}

fn split_case(run: &mut Run, s: &str) {
    let got = verif_split_from_semicolon(s);
    let nontrivial = s.contains(';') && (s.contains('\'') || s.contains('"'));
    run.case("split", &cps(s), &show_pieces(&got), nontrivial);
    if s.contains("''") || s.contains("\"\"") {
        run.count("split:doubled-quote");
    }
    if s.contains(';') {
        run.count("split:has-semicolon");
    }
    if got.len() > 1 {
        run.count("split:multi-statement");
    }
    let want = spec_split(s);
    run.oracle(got == want, &format!("split-vs-lexer script={}", cps(s)), &format!("script {s:?}: split_from_semicolon gave {got:?}, the SQL lexer gives {want:?}"));
}

fn all_strings(alpha: &[char], max_len: usize) -> Vec<String> {
    let mut out = vec![String::new()];
    let mut layer = vec![String::new()];
    for _ in 0..max_len {
        let mut next = Vec::with_capacity(layer.len() * alpha.len());
        for s in &layer {
            for c in alpha {
                let mut t = s.clone();
                t.push(*c);
                next.push(t);
            }
        }
        out.extend(next.iter().cloned());
        layer = next;
    }
    out
}

fn splitting(run: &mut Run, rng: &mut Rng) {
    let alpha = ['a', ' ', ';', '\'', '"', '\n'];
    let l = if run.thorough() { 7 } else { 6 };
    for s in all_strings(&alpha, l) {
        split_case(run, &s);
    }
    let wide = ['a', 'b', ' ', ' ', ';', ';', '\'', '\'', '"', '"', '\n', '\t', '\r', '\u{a0}', '\u{2003}', '\u{3000}', '\u{85}', 'é', '-', '\\', '\u{200b}', '`'];
    let frags = ["select 1", "'it''s;'", "\"a;\"\"b\"", " ; ", ";;", "'", "\"", "-- c;", "'\";'", "\"';\"", "\n", "x", " ", "''", "\"\""];
    let n = run.budget(6000, 150_000);
    for _ in 0..n {
        let mut s = String::new();
        if rng.chance(1, 2) {
            let k = rng.below(7);
            for _ in 0..k {
                s.push_str(*rng.pick(&frags[..]));
            }
        } else {
            let k = rng.below(24);
            for _ in 0..k {
                s.push(*rng.pick(&wide));
            }
        }
        split_case(run, &s);
    }
}

// ------------------------------------------------------------------ result sets

#[derive(Clone, Debug, PartialEq)]
enum Cell {
    Null,
    Str(String),
    Int(i64),
}

struct ResultSet {
    names: Vec<String>,
    is_int: Vec<bool>,
    rows: Vec<Vec<Cell>>,
    /// row counts of the batches the rows are split into
    batch_sizes: Vec<usize>,
}

const CELL_CHARS: &[char] = &['a', 'b', ',', '\t', '"', '\n', '\r', ' ', 'é', '漢', '😀', '\\', '/', '\u{1}', '\u{8}', '\u{c}', '\u{1f}', '\u{7f}', '\'', ';', '|', '\u{2028}'];

fn gen_text(rng: &mut Rng) -> String {
    match rng.below(10) {
        0 | 1 => String::new(),
        2 => rng.pick(&["NULL", "null", "\"", "\"\"", ",", "\n", "\r\n", " ", "a,b", "\t", "\\", "\\\"", "é", "\\u0041", "x\ty"]).to_string(),
        _ => {
            let l = 1 + rng.below(5);
            (0..l).map(|_| *rng.pick(CELL_CHARS)).collect()
        }
    }
}

fn gen_result(rng: &mut Rng) -> ResultSet {
    let ncols = 1 + rng.below(4) as usize;
    let nrows = 1 + rng.below(5) as usize;
    let mut names = vec![];
    let mut is_int = vec![];
    for c in 0..ncols {
        is_int.push(rng.chance(1, 4));
        // distinct column names, sometimes needing quoting / escaping
        let base = match rng.below(6) {
            0 => format!("c,{c}"),
            1 => format!("c\"{c}"),
            2 => format!("é{c}"),
            3 => format!("c\n{c}"),
            _ => format!("c{c}"),
        };
        names.push(base);
    }
    let mut rows = vec![];
    for _ in 0..nrows {
        let mut r = vec![];
        for c in 0..ncols {
            if rng.chance(1, 4) {
                r.push(Cell::Null);
            } else if is_int[c] {
                r.push(Cell::Int(*rng.pick(&[0i64, 1, -1, 42, i64::MAX, i64::MIN, 1000000])));
            } else {
                r.push(Cell::Str(gen_text(rng)));
            }
        }
        rows.push(r);
    }
    // split into batches (possibly with an empty batch in between)
    let mut batch_sizes = vec![];
    let mut left = nrows;
    while left > 0 {
        let k = 1 + rng.below(left as u64) as usize;
        batch_sizes.push(k);
        left -= k;
        if rng.chance(1, 5) {
            batch_sizes.push(0);
        }
    }
    ResultSet { names, is_int, rows, batch_sizes }
}

fn schema_of(rs: &ResultSet) -> SchemaRef {
    Arc::new(Schema::new(
        rs.names
            .iter()
            .zip(&rs.is_int)
            .map(|(n, i)| Field::new(n, if *i { DataType::Int64 } else { DataType::Utf8 }, true))
            .collect::<Vec<_>>(),
    ))
}

fn batches_of(rs: &ResultSet, rows: &[Vec<Cell>]) -> Vec<RecordBatch> {
    let schema = schema_of(rs);
    let mut out = vec![];
    let mut at = 0;
    for &k in &rs.batch_sizes {
        let slice = &rows[at..at + k];
        at += k;
        let cols: Vec<ArrayRef> = (0..rs.names.len())
            .map(|c| -> ArrayRef {
                if rs.is_int[c] {
                    Arc::new(Int64Array::from(slice.iter().map(|r| if let Cell::Int(i) = &r[c] { Some(*i) } else { None }).collect::<Vec<_>>()))
                } else {
                    Arc::new(StringArray::from(slice.iter().map(|r| if let Cell::Str(s) = &r[c] { Some(s.clone()) } else { None }).collect::<Vec<_>>()))
                }
            })
            .collect();
        out.push(RecordBatch::try_new(schema.clone(), cols).unwrap());
    }
    out
}

fn print(fmt: PrintFormat, rs: &ResultSet, rows: &[Vec<Cell>], header: bool) -> Result<String, String> {
    let mut buf: Vec<u8> = vec![];
    let batches = batches_of(rs, rows);
    fmt.print_batches(&mut buf, schema_of(rs), &batches, MaxRows::Unlimited, header, &FormatOptions::default()).map_err(|e| e.to_string())?;
    String::from_utf8(buf).map_err(|e| e.to_string())
}

fn cell_text(c: &Cell) -> String {
    match c {
        Cell::Null => String::new(),
        Cell::Str(s) => s.clone(),
        Cell::Int(i) => i.to_string(),
    }
}

fn cell_sexp(c: &Cell) -> String {
    match c {
        Cell::Null => "n".into(),
        other => cps(&cell_text(other)),
    }
}

/// independent RFC-4180 reader (quoted fields with "", LF/CR terminators, blank lines skipped)
fn read_csv(text: &str, delim: char) -> Vec<Vec<String>> {
    let cs: Vec<char> = text.chars().collect();
    let mut rows = vec![];
    let mut row: Vec<String> = vec![];
    let mut i = 0;
    let n = cs.len();
    while i < n {
        // one field
        let mut field = String::new();
        let mut any = false;
        if cs[i] == '"' {
            any = true;
            i += 1;
            while i < n {
                if cs[i] == '"' {
                    if i + 1 < n && cs[i + 1] == '"' {
                        field.push('"');
                        i += 2;
                    } else {
                        i += 1;
                        break;
                    }
                } else {
                    field.push(cs[i]);
                    i += 1;
                }
            }
        }
        while i < n && cs[i] != delim && cs[i] != '\n' && cs[i] != '\r' {
            field.push(cs[i]);
            any = true;
            i += 1;
        }
        if i < n && cs[i] == delim {
            row.push(field);
            i += 1;
            if i == n {
                row.push(String::new());
                rows.push(std::mem::take(&mut row));
            }
            continue;
        }
        // terminator or end of input
        if any || !row.is_empty() {
            row.push(field);
            rows.push(std::mem::take(&mut row));
        }
        i += 1;
    }
    rows
}

fn show_rows(rows: &[Vec<String>]) -> String {
    format!("({})", rows.iter().map(|r| format!("({})", r.iter().map(|f| cps(f)).collect::<Vec<_>>().join(" "))).collect::<Vec<_>>().join(" "))
}

fn csv_side(run: &mut Run, rng: &mut Rng) {
    let n = run.budget(1500, 40_000);
    for i in 0..n {
        let rs = gen_result(rng);
        let header = rng.chance(1, 3);
        for (fmt, delim, tag) in [(PrintFormat::Csv, ',', "csv"), (PrintFormat::Tsv, '\t', "tsv")] {
            let out = match print(fmt, &rs, &rs.rows, header) {
                Ok(o) => o,
                Err(e) => {
                    run.oracle(false, &format!("{tag}-print-error #{i}"), &e);
                    continue;
                }
            };
            // expected text matrix (header row first)
            let mut matrix: Vec<Vec<String>> = vec![];
            let mut req_rows: Vec<String> = vec![];
            if header {
                matrix.push(rs.names.clone());
                req_rows.push(format!("({})", rs.names.iter().map(|s| cps(s)).collect::<Vec<_>>().join(" ")));
            }
            for r in &rs.rows {
                matrix.push(r.iter().map(cell_text).collect());
                req_rows.push(format!("({})", r.iter().map(cell_sexp).collect::<Vec<_>>().join(" ")));
            }
            let req = format!("({} ({}))", delim as u32, req_rows.join(" "));
            let special = rs.rows.iter().flatten().any(|c| matches!(c, Cell::Str(s) if s.contains(delim) || s.contains('"') || s.contains('\n') || s.contains('\r') || s.is_empty()) || matches!(c, Cell::Null));
            run.case("csv", &req, &cps(&out), special);
            run.case("csvdec", &format!("({} {})", delim as u32, cps(&out)), &show_rows(&matrix), special);
            run.count(&format!("{tag}:cols{}", rs.names.len()));
            if header {
                run.count(&format!("{tag}:with-header"));
            }
            // oracle 1: an independent reader recovers every cell's text (NULL read as "")
            let back = read_csv(&out, delim);
            run.oracle(back == matrix, &format!("{tag}-readback #{i} {req}"), &format!("output {out:?} read back as {back:?}, expected {matrix:?}"));
            // oracle 2: NULL and the empty string must be distinguishable in the output
            let has_null_str = rs.rows.iter().any(|r| r.iter().enumerate().any(|(c, x)| !rs.is_int[c] && *x == Cell::Null));
            if has_null_str {
                let twin: Vec<Vec<Cell>> = rs.rows.iter().map(|r| r.iter().enumerate().map(|(c, x)| if !rs.is_int[c] && *x == Cell::Null { Cell::Str(String::new()) } else { x.clone() }).collect()).collect();
                let out2 = print(fmt, &rs, &twin, header).unwrap_or_default();
                run.count(&format!("{tag}:null-string-cell"));
                run.oracle(
                    out != out2,
                    &format!("output-not-injective null-vs-empty-string format={tag}"),
                    &format!("result sets {:?} and {:?} (NULL replaced by '') both print as {out:?}", rs.rows, twin),
                );
            }
        }
    }
}

// ------------------------------------------------------------------ (c) JSON

#[derive(Debug, Clone, PartialEq)]
enum J {
    Null,
    Str(String),
    Num(String),
    Obj(Vec<(String, J)>),
    Arr(Vec<J>),
}

/// independent JSON reader (RFC 8259) for the subset the writers emit
struct JP<'a> {
    cs: &'a [char],
    i: usize,
}
impl<'a> JP<'a> {
    fn ws(&mut self) {
        while self.i < self.cs.len() && matches!(self.cs[self.i], ' ' | '\n' | '\r' | '\t') {
            self.i += 1;
        }
    }
    fn eat(&mut self, c: char) -> Option<()> {
        self.ws();
        if self.i < self.cs.len() && self.cs[self.i] == c {
            self.i += 1;
            Some(())
        } else {
            None
        }
    }
    fn string(&mut self) -> Option<String> {
        self.eat('"')?;
        let mut s = String::new();
        loop {
            let c = *self.cs.get(self.i)?;
            self.i += 1;
            match c {
                '"' => return Some(s),
                '\\' => {
                    let e = *self.cs.get(self.i)?;
                    self.i += 1;
                    match e {
                        '"' => s.push('"'),
                        '\\' => s.push('\\'),
                        '/' => s.push('/'),
                        'b' => s.push('\u{8}'),
                        'f' => s.push('\u{c}'),
                        'n' => s.push('\n'),
                        'r' => s.push('\r'),
                        't' => s.push('\t'),
                        'u' => {
                            let h: String = self.cs.get(self.i..self.i + 4)?.iter().collect();
                            self.i += 4;
                            s.push(char::from_u32(u32::from_str_radix(&h, 16).ok()?)?);
                        }
                        _ => return None,
                    }
                }
                c if (c as u32) < 0x20 => return None,
                c => s.push(c),
            }
        }
    }
    fn value(&mut self) -> Option<J> {
        self.ws();
        match *self.cs.get(self.i)? {
            '"' => self.string().map(J::Str),
            '{' => {
                self.i += 1;
                let mut kv = vec![];
                if self.eat('}').is_some() {
                    return Some(J::Obj(kv));
                }
                loop {
                    self.ws();
                    let k = self.string()?;
                    self.eat(':')?;
                    let v = self.value()?;
                    kv.push((k, v));
                    if self.eat(',').is_some() {
                        continue;
                    }
                    self.eat('}')?;
                    return Some(J::Obj(kv));
                }
            }
            '[' => {
                self.i += 1;
                let mut xs = vec![];
                if self.eat(']').is_some() {
                    return Some(J::Arr(xs));
                }
                loop {
                    xs.push(self.value()?);
                    if self.eat(',').is_some() {
                        continue;
                    }
                    self.eat(']')?;
                    return Some(J::Arr(xs));
                }
            }
            'n' => {
                if self.cs.get(self.i..self.i + 4)? == ['n', 'u', 'l', 'l'] {
                    self.i += 4;
                    Some(J::Null)
                } else {
                    None
                }
            }
            _ => {
                let st = self.i;
                while self.i < self.cs.len() && matches!(self.cs[self.i], '-' | '+' | '.' | 'e' | 'E' | '0'..='9') {
                    self.i += 1;
                }
                if self.i == st { None } else { Some(J::Num(self.cs[st..self.i].iter().collect())) }
            }
        }
    }
}

fn parse_json_docs(text: &str, ndjson: bool) -> Option<Vec<J>> {
    let cs: Vec<char> = text.chars().collect();
    let mut p = JP { cs: &cs, i: 0 };
    let mut out = vec![];
    if ndjson {
        loop {
            p.ws();
            if p.i >= cs.len() {
                return Some(out);
            }
            out.push(p.value()?);
        }
    } else {
        match p.value()? {
            J::Arr(xs) => {
                p.ws();
                if p.i == cs.len() { Some(xs) } else { None }
            }
            _ => None,
        }
    }
}

fn row_matches(rs: &ResultSet, row: &[Cell], doc: &J) -> bool {
    let J::Obj(kv) = doc else { return false };
    // no unknown / duplicate keys
    for (i, (k, _)) in kv.iter().enumerate() {
        if !rs.names.contains(k) || kv[..i].iter().any(|(k2, _)| k2 == k) {
            return false;
        }
    }
    for (c, name) in rs.names.iter().enumerate() {
        let v = kv.iter().find(|(k, _)| k == name).map(|(_, v)| v);
        let ok = match (&row[c], v) {
            (Cell::Null, None) | (Cell::Null, Some(J::Null)) => true,
            (Cell::Str(s), Some(J::Str(t))) => s == t,
            (Cell::Int(i), Some(J::Num(t))) => *t == i.to_string(),
            _ => false,
        };
        if !ok {
            return false;
        }
    }
    true
}

fn json_side(run: &mut Run, rng: &mut Rng) {
    // single strings: real encoding vs `jstr`, Lean decoder on the real text
    let mut strs: Vec<String> = vec![String::new()];
    for c in 0u32..=0x22 {
        strs.push(char::from_u32(c).unwrap().to_string());
    }
    for c in ['\\', '/', '\u{7f}', '\u{80}', '\u{2028}', '\u{2029}', 'é', '😀', '\u{feff}'] {
        strs.push(c.to_string());
        strs.push(format!("a{c}b"));
    }
    let n = run.budget(1500, 40_000);
    for _ in 0..n {
        strs.push(gen_text(rng));
    }
    let one = |s: &str| -> Result<String, String> {
        let rs = ResultSet { names: vec!["c".into()], is_int: vec![false], rows: vec![vec![Cell::Str(s.to_string())]], batch_sizes: vec![1] };
        print(PrintFormat::NdJson, &rs, &rs.rows, false)
    };
    for s in &strs {
        match one(s) {
            Ok(line) => {
                let enc = line.strip_prefix("{\"c\":").and_then(|x| x.strip_suffix("}\n"));
                match enc {
                    Some(enc) => {
                        let nt = s.chars().any(|c| (c as u32) < 0x20 || c == '"' || c == '\\');
                        run.case("jstr", &cps(s), &cps(enc), nt);
                        run.case("jdec", &cps(&format!("{enc}}}")), &format!("{} 1", cps(s)), nt);
                        run.oracle(!enc.contains('\n') && !enc.contains('\r'), &format!("ndjson-line-break text={}", cps(s)), enc);
                    }
                    None => run.oracle(false, &format!("ndjson-shape text={}", cps(s)), &line),
                }
            }
            Err(e) => run.oracle(false, &format!("ndjson-print-error text={}", cps(s)), &e),
        }
    }
    // whole result sets, both JSON formats, through the independent reader
    let n = run.budget(1200, 30_000);
    for i in 0..n {
        let rs = gen_result(rng);
        for (fmt, nd, tag) in [(PrintFormat::Json, false, "json"), (PrintFormat::NdJson, true, "ndjson")] {
            let out = match print(fmt, &rs, &rs.rows, false) {
                Ok(o) => o,
                Err(e) => {
                    run.oracle(false, &format!("{tag}-print-error #{i}"), &e);
                    continue;
                }
            };
            run.count(&format!("{tag}:result-sets"));
            let docs = parse_json_docs(&out, nd);
            let ok = match &docs {
                Some(ds) => ds.len() == rs.rows.len() && ds.iter().zip(&rs.rows).all(|(d, r)| row_matches(&rs, r, d)),
                None => false,
            };
            run.oracle(ok, &format!("{tag}-readback #{i} names={:?} rows={:?}", rs.names, rs.rows), &format!("output {out:?} parsed as {docs:?}"));
            if nd {
                run.oracle(out.lines().count() == rs.rows.len(), &format!("ndjson-one-line-per-row #{i}"), &out);
            }
        }
    }
}

pub fn run(run: &mut Run, args: &Args) {
    let mut rng = Rng::new(args.seed);
    splitting(run, &mut rng);
    csv_side(run, &mut rng);
    json_side(run, &mut rng);
}
