//! C09 — window functions match their frame definitions under every executor.
//!
//! SQL `fn(..) OVER (PARTITION BY p ORDER BY k [opts] [, id] frame)` is run on generated tables
//! (1–3 partitions, ties and NULLs in the order key, NULLs in the values) × ROWS / RANGE / GROUPS
//! frames with bounded and unbounded offsets × ranking / navigation / aggregate functions × batch
//! sizes × target partitions (the planner picks `BoundedWindowAggExec` or `WindowAggExec`; which one
//! ran is counted).  Every partition's result column is compared for equality with the Lean
//! definition (`win` op: the function evaluated over the DECLARATIVE frame of each row); ROWS-frame
//! aggregates and rank/row_number are also recomputed in Rust (implementation-level oracle).
use std::collections::BTreeMap;
use std::sync::Arc;
use std::time::Duration;

use arrow::array::{Array, ArrayRef, Float64Array, Int64Array, RecordBatch, UInt64Array};
use arrow::datatypes::{DataType, Field, Schema, SchemaRef};
use datafusion::datasource::MemTable;
use datafusion::physical_plan::displayable;
use datafusion::prelude::{SessionConfig, SessionContext};
use hutil::{Args, Rng, Run};

type Cell = Option<i64>;

#[derive(Clone, Debug)]
struct R {
    p: i64,
    k: Cell,
    id: i64,
    v: Cell,
}

#[derive(Clone, Copy, Debug, PartialEq)]
enum B {
    Up,
    P(u64),
    C,
    F(u64),
    Uf,
}
impl B {
    fn sql(&self) -> String {
        match self {
            B::Up => "UNBOUNDED PRECEDING".into(),
            B::P(n) => format!("{n} PRECEDING"),
            B::C => "CURRENT ROW".into(),
            B::F(n) => format!("{n} FOLLOWING"),
            B::Uf => "UNBOUNDED FOLLOWING".into(),
        }
    }
    fn sx(&self) -> String {
        match self {
            B::Up => "up".into(),
            B::P(n) => format!("(p {n})"),
            B::C => "c".into(),
            B::F(n) => format!("(f {n})"),
            B::Uf => "uf".into(),
        }
    }
    /// position on the axis "preceding … following" for validity checks
    fn pos(&self) -> i128 {
        match self {
            B::Up => i128::MIN,
            B::P(n) => -(*n as i128),
            B::C => 0,
            B::F(n) => *n as i128,
            B::Uf => i128::MAX,
        }
    }
}

fn cell(c: Cell) -> String {
    c.map(|x| x.to_string()).unwrap_or_else(|| "n".into())
}

fn cmp_key(desc: bool, nf: bool, a: Cell, b: Cell) -> std::cmp::Ordering {
    use std::cmp::Ordering::*;
    match (a, b) {
        (None, None) => Equal,
        (None, Some(_)) => if nf { Less } else { Greater },
        (Some(_), None) => if nf { Greater } else { Less },
        (Some(x), Some(y)) => if desc { y.cmp(&x) } else { x.cmp(&y) },
    }
}

fn gen_bound(rng: &mut Rng, start: bool, big: bool) -> B {
    match rng.below(10) {
        0 | 1 => if start { B::Up } else { B::Uf },
        2 | 3 => B::C,
        4..=6 => B::P(if big { *rng.pick(&[10u64, 1 << 62]) } else { rng.below(4) }),
        _ => B::F(if big { *rng.pick(&[10u64, 1 << 62]) } else { rng.below(4) }),
    }
}

fn schema() -> SchemaRef {
    Arc::new(Schema::new(vec![
        Field::new("p", DataType::Int64, false),
        Field::new("k", DataType::Int64, true),
        Field::new("id", DataType::Int64, false),
        Field::new("v", DataType::Int64, true),
    ]))
}

fn batch(rows: &[R]) -> RecordBatch {
    let cols: Vec<ArrayRef> = vec![
        Arc::new(rows.iter().map(|r| Some(r.p)).collect::<Int64Array>()),
        Arc::new(rows.iter().map(|r| r.k).collect::<Int64Array>()),
        Arc::new(rows.iter().map(|r| Some(r.id)).collect::<Int64Array>()),
        Arc::new(rows.iter().map(|r| r.v).collect::<Int64Array>()),
    ];
    RecordBatch::try_new(schema(), cols).unwrap()
}

struct Case {
    rows: Vec<R>,
    f: &'static str,
    fargs_sql: String,
    fargs_sx: String,
    kind: &'static str,
    s: B,
    e: B,
    desc: bool,
    nf: bool,
    /// ORDER BY k, id (unique order) — needed by order-dependent functions and ROWS frames
    tiebreak: bool,
    has_frame: bool,
}

const AGG: &[&str] = &["count", "sum", "min", "max"];
const NAV: &[&str] = &["first_value", "last_value", "nth_value"];
const POS: &[&str] = &["row_number", "ntile", "lag", "lead"];
const RANK: &[&str] = &["rank", "dense_rank", "percent_rank", "cume_dist"];

fn gen_case(rng: &mut Rng, extremes: bool, focus: bool) -> Case {
    let np = 1 + rng.below(3) as i64;
    let n = if focus { *rng.pick(&[12usize, 30]) } else { *rng.pick(&[0usize, 1, 2, 5, 12, 30]) };
    let kdom = *rng.pick(&[1i64, 3, 8]);
    let rows: Vec<R> = (0..n)
        .map(|i| R {
            p: rng.below(np as u64) as i64,
            k: match rng.below(12) {
                0 | 1 => None,
                2 if extremes => Some(i64::MAX - rng.range(0, 6)),
                3 if extremes => Some(i64::MIN + rng.range(0, 6)),
                _ => Some(rng.range(0, kdom)),
            },
            id: i as i64,
            v: if rng.chance(1, 5) { None } else { Some(rng.range(-3, 9)) },
        })
        .collect();
    let class = if extremes || focus { 2 } else { rng.below(4) };
    let (f, kind, tiebreak): (&'static str, &'static str, bool) = match class {
        0 => (*rng.pick(AGG), "rows", true),
        1 => (if rng.chance(1, 2) { *rng.pick(NAV) } else { *rng.pick(POS) }, "rows", true),
        2 => (*rng.pick(AGG), if extremes || focus || rng.chance(1, 2) { "range" } else { "groups" }, false),
        _ => (*rng.pick(RANK), "rows", false),
    };
    let (mut s, mut e) = (gen_bound(rng, true, extremes && kind == "range"), gen_bound(rng, false, extremes && kind == "range"));
    if s.pos() > e.pos() {
        std::mem::swap(&mut s, &mut e);
    }
    if s == B::Uf {
        s = B::C;
        e = B::Uf;
    }
    if e == B::Up {
        s = B::Up;
        e = B::C;
    }
    let mut rows = rows;
    if kind == "range" && !extremes && rng.chance(1, 3) {
        // a sliding frame strictly before / after the current row over clustered keys with gaps: the
        // frame goes non-empty -> EMPTY -> non-empty inside one partition
        let (a, b) = (1 + rng.below(3), 1 + rng.below(3));
        let (hi, lo) = (a.max(b), a.min(b));
        if rng.chance(1, 2) {
            s = B::P(hi);
            e = B::P(lo);
        } else {
            s = B::F(lo);
            e = B::F(hi);
        }
        for r in rows.iter_mut() {
            if r.k.is_some() && rng.chance(5, 6) {
                r.k = Some(*rng.pick(&[0i64, 1, 2, 10, 11, 12, 13, 30, 31]));
            }
        }
    }
    let (fargs_sql, fargs_sx) = match f {
        "count" | "sum" | "min" | "max" | "first_value" | "last_value" => ("v".to_string(), String::new()),
        "nth_value" => {
            let k = 1 + rng.below(3);
            (format!("v, {k}"), format!(" {k}"))
        }
        "ntile" => {
            let k = 1 + rng.below(4);
            (format!("{k}"), format!(" {k}"))
        }
        "lag" | "lead" => {
            let off = rng.below(3);
            if rng.chance(1, 2) { (format!("v, {off}, -7"), format!(" {off} -7")) } else { (format!("v, {off}"), format!(" {off}")) }
        }
        _ => (String::new(), String::new()),
    };
    // ranking / positional functions ignore the frame; give them one only sometimes
    let has_frame = !(RANK.contains(&f) || POS.contains(&f)) || rng.chance(1, 3);
    Case { rows, f, fargs_sql, fargs_sx, kind, s, e, desc: rng.chance(1, 2), nf: rng.chance(1, 2), tiebreak, has_frame }
}

fn to_frac(v: f64, den: i64) -> String {
    let num = (v * den as f64).round();
    if (v * den as f64 - num).abs() < 1e-9 { format!("{}/{}", num as i64, den) } else { format!("?{v}") }
}

/// Rust re-statement for ROWS frames / rank / row_number (None = not covered by this oracle)
fn rust_oracle(c: &Case, part: &[R]) -> Option<Vec<String>> {
    let n = part.len();
    let lo_hi = |i: usize| -> (usize, usize) {
        let lo = match c.s { B::Up => 0, B::P(k) => i.saturating_sub(k as usize), B::C => i, B::F(k) => (i + k as usize).min(n), B::Uf => n };
        let hi = match c.e { B::Up => 0, B::P(k) => (i + 1).saturating_sub(k as usize), B::C => i + 1, B::F(k) => (i + k as usize + 1).min(n), B::Uf => n };
        (lo, hi.max(lo))
    };
    match (c.f, c.kind) {
        ("count" | "sum" | "min" | "max", "rows") => Some(
            (0..n)
                .map(|i| {
                    let (lo, hi) = if c.has_frame { lo_hi(i) } else { (0, i + 1) };
                    let vals: Vec<i64> = part[lo..hi].iter().filter_map(|r| r.v).collect();
                    match c.f {
                        "count" => vals.len().to_string(),
                        "sum" => cell(if vals.is_empty() { None } else { Some(vals.iter().fold(0i64, |a, b| a.wrapping_add(*b))) }),
                        "min" => cell(vals.iter().min().cloned()),
                        _ => cell(vals.iter().max().cloned()),
                    }
                })
                .collect(),
        ),
        ("count" | "sum" | "min" | "max", "range") if c.has_frame => Some(
            (0..n)
                .map(|i| {
                    // position of a key relative to a target on the ORDER BY axis, in unbounded integers:
                    // NULLs sit before everything (NULLS FIRST) or after everything (NULLS LAST)
                    let axis = |k: Cell| -> (i8, i128) {
                        match k {
                            None => (if c.nf { -1 } else { 1 }, 0),
                            Some(x) => (0, if c.desc { -(x as i128) } else { x as i128 }),
                        }
                    };
                    let ki = part[i].k;
                    let shift = |b: B| -> Option<(i8, i128)> {
                        // target of an offset bound for the current row; NULL rows: their peers only
                        let (z, a) = axis(ki);
                        match b {
                            B::Up | B::Uf => None,
                            B::C => Some((z, a)),
                            B::P(d) => Some(if z != 0 { (z, a) } else { (0, a - d as i128) }),
                            B::F(d) => Some(if z != 0 { (z, a) } else { (0, a + d as i128) }),
                        }
                    };
                    let lo = shift(c.s);
                    let hi = shift(c.e);
                    let vals: Vec<i64> = part
                        .iter()
                        .filter(|r| {
                            let p = axis(r.k);
                            lo.map(|t| p >= t).unwrap_or(c.s == B::Up) && hi.map(|t| p <= t).unwrap_or(c.e == B::Uf)
                        })
                        .filter_map(|r| r.v)
                        .collect();
                    match c.f {
                        "count" => vals.len().to_string(),
                        "sum" => cell(if vals.is_empty() { None } else { Some(vals.iter().fold(0i64, |a, b| a.wrapping_add(*b))) }),
                        "min" => cell(vals.iter().min().cloned()),
                        _ => cell(vals.iter().max().cloned()),
                    }
                })
                .collect(),
        ),
        ("row_number", _) => Some((1..=n).map(|i| i.to_string()).collect()),
        ("rank", _) => Some((0..n).map(|i| (1 + part.iter().position(|r| r.k == part[i].k).unwrap()).to_string()).collect()),
        _ => None,
    }
}

/// a finite list of batches presented as one partition of an "unbounded" streaming table
#[derive(Debug)]
struct VecStream {
    schema: SchemaRef,
    batches: Vec<RecordBatch>,
}

impl datafusion::physical_plan::streaming::PartitionStream for VecStream {
    fn schema(&self) -> &SchemaRef {
        &self.schema
    }
    fn execute(&self, _ctx: Arc<datafusion::execution::TaskContext>) -> datafusion::execution::SendableRecordBatchStream {
        let it = self.batches.clone().into_iter().map(Ok);
        Box::pin(datafusion::physical_plan::stream::RecordBatchStreamAdapter::new(Arc::clone(&self.schema), futures::stream::iter(it)))
    }
}

pub fn run(run: &mut Run, args: &Args) {
    hutil::quiet_panics();
    let mut rng = Rng::new(args.seed);
    let rt = tokio::runtime::Builder::new_current_thread().enable_all().build().unwrap();
    let n = run.budget(700, 20_000);
    for i in 0..n {
        let extremes = i % 10 == 9;
        // every fourth case: an aggregate over a RANGE frame on 12–30 rows read from the pre-ordered
        // streaming source (BoundedWindowAggExec in Linear mode, many batch boundaries inside peer groups)
        let focus = !extremes && i % 4 == 3;
        let c = gen_case(&mut rng, extremes, focus);
        let order = format!("k {}{}{}", if c.desc { "DESC" } else { "ASC" }, if c.nf { " NULLS FIRST" } else { " NULLS LAST" }, if c.tiebreak { ", id ASC" } else { "" });
        let frame = if c.has_frame { format!(" {} BETWEEN {} AND {}", c.kind.to_uppercase(), c.s.sql(), c.e.sql()) } else { String::new() };
        let sql = format!("SELECT id, {}({}) OVER (PARTITION BY p ORDER BY {order}{frame}) AS w FROM t", c.f, c.fargs_sql);
        // table layout
        // a quarter of the ORDER-BY-k-only cases read an "unbounded" streaming source that is already
        // ordered by k: the planner cannot sort it and runs BoundedWindowAggExec in Linear /
        // PartiallySorted input-order mode (or rejects the query at planning)
        let streaming = !c.tiebreak && !extremes && (focus || rng.chance(1, 3)); // (keys near the i64 limits stay on the MemTable path: the model encodes that path's overflow behaviour)
        let nparts = if streaming { 1 } else { 1 + rng.below(3) as usize };
        let mut parts: Vec<Vec<R>> = vec![vec![]; nparts];
        for r in &c.rows {
            parts[rng.below(nparts as u64) as usize].push(r.clone());
        }
        if streaming {
            use std::cmp::Ordering::*;
            parts[0].sort_by(|a, b| match (a.k, b.k) {
                (None, None) => Equal,
                (None, Some(_)) => if c.nf { Less } else { Greater },
                (Some(_), None) => if c.nf { Greater } else { Less },
                (Some(x), Some(y)) => if c.desc { y.cmp(&x) } else { x.cmp(&y) },
            });
        }
        let maxb = *rng.pick(&[1usize, 3, 16]);
        let batches: Vec<Vec<RecordBatch>> = parts
            .iter()
            .map(|p| {
                let mut out = vec![];
                let mut j = 0;
                while j < p.len() {
                    let e = (j + 1 + rng.below(maxb as u64) as usize).min(p.len());
                    out.push(batch(&p[j..e]));
                    j = e;
                }
                out
            })
            .collect();
        let bs = *rng.pick(&[1usize, 2, 3, 8, 8192]);
        let tp = if streaming { 1 } else { 1 + rng.below(3) as usize };
        let ctx = SessionContext::new_with_config(SessionConfig::new().with_batch_size(bs).with_target_partitions(tp));
        let res = hutil::catch(std::panic::AssertUnwindSafe(|| {
            rt.block_on(async {
                if streaming {
                    let ps: Arc<dyn datafusion::physical_plan::streaming::PartitionStream> = Arc::new(VecStream { schema: schema(), batches: batches[0].clone() });
                    let t = datafusion::catalog::streaming::StreamingTable::try_new(schema(), vec![ps])
                        .map_err(|e| e.to_string())?
                        .with_infinite_table(true)
                        .with_sort_order(vec![datafusion::prelude::col("k").sort(!c.desc, c.nf)]);
                    ctx.register_table("t", Arc::new(t)).map_err(|e| e.to_string())?;
                } else {
                    let t = MemTable::try_new(schema(), batches.clone()).map_err(|e| e.to_string())?;
                    ctx.register_table("t", Arc::new(t)).map_err(|e| e.to_string())?;
                }
                tokio::time::timeout(Duration::from_secs(60), async {
                    let df = ctx.sql(&sql).await.map_err(|e| format!("plan: {e}"))?;
                    let plan = df.clone().create_physical_plan().await.map_err(|e| format!("plan: {e}"))?;
                    let shown = displayable(plan.as_ref()).indent(false).to_string();
                    let out = df.collect().await.map_err(|e| e.to_string())?;
                    Ok::<_, String>((shown, out))
                })
                .await
                .map_err(|_| "hang".to_string())?
            })
        }));
        let sig = format!("#{i} `{sql}` bs={bs} tp={tp} rows={}", c.rows.iter().map(|r| format!("({} {} {} {})", r.p, cell(r.k), r.id, cell(r.v))).collect::<Vec<_>>().join(""));
        let (shown, out) = match res {
            Err(p) => {
                run.oracle(false, &format!("win {sig} panic"), &p);
                continue;
            }
            Ok(Err(e)) if e.starts_with("plan:") => {
                run.count("rejected-at-planning");
                run.count(&format!("rejected:{}:{}", c.kind, c.f));
                continue;
            }
            Ok(Err(e)) => {
                run.oracle(false, &format!("win {sig} {}", if e == "hang" { "hang" } else { "unexpected-error" }), &e);
                continue;
            }
            Ok(Ok(x)) => x,
        };
        if streaming {
            run.count(if shown.contains("mode=[Linear]") { "streaming source: Linear mode" } else if shown.contains("mode=[PartiallySorted") { "streaming source: PartiallySorted mode" } else { "streaming source: other plan" });
        }
        run.count(if shown.contains("BoundedWindowAggExec") { "exec:BoundedWindowAggExec" } else { "exec:WindowAggExec" });
        run.count(&format!("fn:{}", c.f));
        run.count(&format!("frame:{}", if c.has_frame { c.kind } else { "default" }));
        // id -> result text
        let npart_rows: BTreeMap<i64, usize> = c.rows.iter().fold(BTreeMap::new(), |mut m, r| {
            *m.entry(r.p).or_default() += 1;
            m
        });
        let pof: BTreeMap<i64, i64> = c.rows.iter().map(|r| (r.id, r.p)).collect();
        let mut got: BTreeMap<i64, String> = BTreeMap::new();
        for b in &out {
            let ids = b.column(0).as_any().downcast_ref::<Int64Array>().unwrap();
            let w = b.column(1);
            for r in 0..b.num_rows() {
                let id = ids.value(r);
                let np = npart_rows[&pof[&id]] as i64;
                let txt = if w.is_null(r) {
                    "n".to_string()
                } else if let Some(a) = w.as_any().downcast_ref::<Int64Array>() {
                    a.value(r).to_string()
                } else if let Some(a) = w.as_any().downcast_ref::<UInt64Array>() {
                    a.value(r).to_string()
                } else if let Some(a) = w.as_any().downcast_ref::<Float64Array>() {
                    match c.f {
                        "percent_rank" => if np <= 1 { to_frac(a.value(r), 1) } else { to_frac(a.value(r), np - 1) },
                        _ => to_frac(a.value(r), np),
                    }
                } else {
                    format!("?{:?}", w.data_type())
                };
                got.insert(id, txt);
            }
        }
        let complete = got.len() == c.rows.len();
        run.oracle(complete, &format!("win {sig} row-count"), &format!("{} rows in, {} rows out", c.rows.len(), got.len()));
        if !complete {
            continue;
        }
        // one request per partition, rows in ORDER BY order (ties by id: any peer order gives the same
        // answers for the functions used without a tie-breaker)
        let mut by_p: BTreeMap<i64, Vec<R>> = BTreeMap::new();
        for r in &c.rows {
            by_p.entry(r.p).or_default().push(r.clone());
        }
        for (p, mut part) in by_p {
            part.sort_by(|a, b| cmp_key(c.desc, c.nf, a.k, b.k).then(a.id.cmp(&b.id)));
            let opt = match (c.desc, c.nf) {
                (false, true) => "af",
                (false, false) => "al",
                (true, true) => "df",
                (true, false) => "dl",
            };
            // without an explicit frame: RANGE UNBOUNDED PRECEDING .. CURRENT ROW (ORDER BY present)
            let (kind, s, e) = if c.has_frame { (c.kind, c.s, c.e) } else { ("range", B::Up, B::C) };
            // with the id tie-breaker every row is its own peer: RANGE default frame = ROWS up..current
            let (kind, s, e) = if !c.has_frame && c.tiebreak { ("rows", B::Up, B::C) } else { (kind, s, e) };
            let req = format!("(({}{}) {kind} {} {} {opt} ({}))", c.f, c.fargs_sx, s.sx(), e.sx(), part.iter().map(|r| format!("({} {})", cell(r.k), cell(r.v))).collect::<Vec<_>>().join(" "));
            let ans = part.iter().map(|r| got[&r.id].clone()).collect::<Vec<_>>().join(",");
            let ties = part.windows(2).any(|w| w[0].k == w[1].k);
            let nulls = part.iter().any(|r| r.k.is_none());
            run.case("win", &req, &ans, part.len() >= 3 && (ties || nulls));
            if let Some(want) = rust_oracle(&c, &part) {
                // does some row's key ± offset leave the i64 range?  (the operator collapses such bounds to the partition edge)
                let ovf = c.has_frame
                    && c.kind == "range"
                    && part.iter().filter_map(|r| r.k).any(|k| {
                        [c.s, c.e].iter().any(|b| match b {
                            B::P(d) | B::F(d) => k.checked_add(*d as i64).is_none() || k.checked_sub(*d as i64).is_none() || *d > i64::MAX as u64,
                            _ => false,
                        })
                    });
                // RANGE frame ending at `n PRECEDING` over a partition with NULL order keys: the bounded executor
                // emits NULL-key rows before their peer group is complete (result depends on the batch size)
                let null_prec_end = c.has_frame && c.kind == "range" && matches!(c.e, B::P(_)) && part.iter().any(|r| r.k.is_none());
                let kindtag = if c.has_frame && c.kind == "range" {
                    if ovf {
                        "win-range diag=offset-overflow"
                    } else if null_prec_end {
                        "win-range diag=null-key-preceding-end"
                    } else {
                        "win-range"
                    }
                } else {
                    "win"
                };
                if ovf {
                    run.count("range:offset-overflow-case");
                }
                run.oracle(want.join(",") == ans, &format!("{kindtag} {sig} partition={p}"), &format!("expected {} got {ans}", want.join(",")));
            }
        }
    }
}
