//! Shared SQL generator / exporter for the properties that read through the Lean SQL reference
//! semantics (`lean/DfModel/Sql/*`): typed values, expression and query ASTs of the modelled
//! fragment, rendered (a) as SQL text, (b) as the model's s-expressions (grammar in
//! `lean/DfModel/Sql/Codec.lean`), (c) as `datafusion_expr::Expr`; random typed generators with
//! NULL-heavy / duplicate-heavy / boundary-heavy small domains; MemTable builders; result readers.
#![allow(dead_code)]
use std::fmt::Write as _;
use std::sync::Arc;

use arrow::array::*;
use arrow::datatypes::{DataType, Field, Schema, SchemaRef};
use arrow::record_batch::RecordBatch;
use hutil::Rng;

// ------------------------------------------------------------------------------------ values

#[derive(Clone, Copy, PartialEq, Eq, Debug, Hash, PartialOrd, Ord)]
pub enum Ty {
    /// signed integer of 8/16/32/64 bits
    Int(u8),
    Bool,
    Str,
}

#[derive(Clone, PartialEq, Eq, Debug, Hash, PartialOrd, Ord)]
pub enum Val {
    Null,
    Int(u8, i64),
    Bool(bool),
    Str(String),
}

impl Ty {
    pub fn sql(&self) -> &'static str {
        match self {
            Ty::Int(8) => "TINYINT",
            Ty::Int(16) => "SMALLINT",
            Ty::Int(32) => "INT",
            Ty::Int(_) => "BIGINT",
            Ty::Bool => "BOOLEAN",
            Ty::Str => "VARCHAR",
        }
    }
    pub fn sexp(&self) -> String {
        match self {
            Ty::Int(w) => format!("(int {w} s)"),
            Ty::Bool => "bool".into(),
            Ty::Str => "str".into(),
        }
    }
    pub fn arrow(&self) -> DataType {
        match self {
            Ty::Int(8) => DataType::Int8,
            Ty::Int(16) => DataType::Int16,
            Ty::Int(32) => DataType::Int32,
            Ty::Int(_) => DataType::Int64,
            Ty::Bool => DataType::Boolean,
            Ty::Str => DataType::Utf8,
        }
    }
    pub fn is_int(&self) -> bool {
        matches!(self, Ty::Int(_))
    }
}

pub fn int_min(w: u8) -> i64 {
    if w >= 64 { i64::MIN } else { -(1i64 << (w - 1)) }
}
pub fn int_max(w: u8) -> i64 {
    if w >= 64 { i64::MAX } else { (1i64 << (w - 1)) - 1 }
}

impl Val {
    pub fn sexp(&self) -> String {
        match self {
            Val::Null => "null".into(),
            Val::Int(w, n) => format!("(i {w} s {n})"),
            Val::Bool(b) => format!("(b {})", if *b { "t" } else { "f" }),
            Val::Str(s) => format!("(s {})", hutil::hex(s.as_bytes())),
        }
    }
    /// SQL literal text of the given type
    pub fn sql(&self, ty: Ty, rng_bare_null: bool) -> String {
        match self {
            Val::Null => {
                if rng_bare_null {
                    "NULL".into()
                } else {
                    format!("CAST(NULL AS {})", ty.sql())
                }
            }
            Val::Int(w, n) => {
                let body = if *n == i64::MIN {
                    "(-9223372036854775807 - 1)".to_string()
                } else if *n < 0 {
                    format!("({n})")
                } else {
                    format!("{n}")
                };
                if *w == 64 { body } else { format!("CAST({body} AS {})", Ty::Int(*w).sql()) }
            }
            Val::Bool(b) => (if *b { "true" } else { "false" }).into(),
            Val::Str(s) => format!("'{}'", s.replace('\'', "''")),
        }
    }
}

pub fn row_sexp(r: &[Val]) -> String {
    let mut s = String::from("(");
    for (i, v) in r.iter().enumerate() {
        if i > 0 {
            s.push(' ');
        }
        s.push_str(&v.sexp());
    }
    s.push(')');
    s
}
pub fn rows_sexp(rs: &[Vec<Val>]) -> String {
    let mut s = String::from("(");
    for (i, r) in rs.iter().enumerate() {
        if i > 0 {
            s.push(' ');
        }
        s.push_str(&row_sexp(r));
    }
    s.push(')');
    s
}

// ------------------------------------------------------------------------------------ expressions

#[derive(Clone, Copy, PartialEq, Eq, Debug, Hash)]
pub enum Op {
    Add,
    Sub,
    Mul,
    Div,
    Mod,
    Eq,
    Ne,
    Lt,
    Le,
    Gt,
    Ge,
    And,
    Or,
    Distinct,
    NotDistinct,
    Concat,
}
impl Op {
    pub fn sexp(&self) -> &'static str {
        match self {
            Op::Add => "add",
            Op::Sub => "sub",
            Op::Mul => "mul",
            Op::Div => "div",
            Op::Mod => "mod",
            Op::Eq => "eq",
            Op::Ne => "ne",
            Op::Lt => "lt",
            Op::Le => "le",
            Op::Gt => "gt",
            Op::Ge => "ge",
            Op::And => "and",
            Op::Or => "or",
            Op::Distinct => "distinct",
            Op::NotDistinct => "notdistinct",
            Op::Concat => "concat",
        }
    }
    pub fn sql(&self) -> &'static str {
        match self {
            Op::Add => "+",
            Op::Sub => "-",
            Op::Mul => "*",
            Op::Div => "/",
            Op::Mod => "%",
            Op::Eq => "=",
            Op::Ne => "<>",
            Op::Lt => "<",
            Op::Le => "<=",
            Op::Gt => ">",
            Op::Ge => ">=",
            Op::And => "AND",
            Op::Or => "OR",
            Op::Distinct => "IS DISTINCT FROM",
            Op::NotDistinct => "IS NOT DISTINCT FROM",
            Op::Concat => "||",
        }
    }
    pub const CMP: [Op; 6] = [Op::Eq, Op::Ne, Op::Lt, Op::Le, Op::Gt, Op::Ge];
    pub const ARITH: [Op; 5] = [Op::Add, Op::Sub, Op::Mul, Op::Div, Op::Mod];
}

#[derive(Clone, Copy, PartialEq, Eq, Debug, Hash)]
pub enum IsKind {
    Null,
    True,
    False,
    Unknown,
}

#[derive(Clone, Debug, PartialEq)]
pub enum SubKind {
    Exists,
    Scalar,
    In,
    Quant(Op, bool),
}

#[derive(Clone, Debug, PartialEq)]
pub enum Expr {
    Col(usize),
    Outer(usize),
    Lit(Val, Ty, bool), // bool: render a NULL literal bare
    Ph(usize, Ty),
    Bin(Op, Box<Expr>, Box<Expr>),
    Not(Box<Expr>),
    Neg(Box<Expr>),
    Is(IsKind, bool, Box<Expr>),
    In(bool, Box<Expr>, Vec<Expr>),
    Between(bool, Box<Expr>, Box<Expr>, Box<Expr>),
    Case(Option<Box<Expr>>, Vec<(Expr, Expr)>, Option<Box<Expr>>),
    Coalesce(Vec<Expr>),
    Nullif(Box<Expr>, Box<Expr>),
    /// `implicit`: not written in the SQL text — the engine's coercion is expected to insert it
    Cast { ty: Ty, try_: bool, implicit: bool, e: Box<Expr> },
    Like { neg: bool, ci: bool, e: Box<Expr>, pat: Box<Expr>, esc: Option<char> },
    /// sub-query expression (SQL level only; lowered to `apply` for the model): kind, negated,
    /// left operand (IN / ANY / ALL), the query
    Sub { kind: SubKind, neg: bool, x: Option<Box<Expr>>, q: Box<Query> },
}

/// how a column reference is written in SQL
#[derive(Clone, Debug)]
pub struct ColInfo {
    pub sql: String,
    pub ty: Ty,
}
#[derive(Clone, Debug, Default)]
pub struct Scope {
    pub cols: Vec<ColInfo>,
    pub outer: Vec<ColInfo>,
}

fn b2a(b: bool) -> &'static str {
    if b { "t" } else { "f" }
}

impl Expr {
    pub fn lit(v: Val, ty: Ty) -> Expr {
        Expr::Lit(v, ty, false)
    }
    pub fn i64(n: i64) -> Expr {
        Expr::Lit(Val::Int(64, n), Ty::Int(64), false)
    }
    pub fn bin(op: Op, a: Expr, b: Expr) -> Expr {
        Expr::Bin(op, Box::new(a), Box::new(b))
    }
    pub fn and(a: Expr, b: Expr) -> Expr {
        Expr::bin(Op::And, a, b)
    }

    /// the model's s-expression (sub-queries must have been lowered away)
    pub fn sexp(&self) -> String {
        let mut s = String::new();
        self.sexp_into(&mut s);
        s
    }
    pub fn sexp_into(&self, s: &mut String) {
        match self {
            Expr::Col(i) => {
                let _ = write!(s, "(col {i})");
            }
            Expr::Outer(i) => {
                let _ = write!(s, "(outer {i})");
            }
            Expr::Lit(v, _, _) => {
                let _ = write!(s, "(lit {})", v.sexp());
            }
            Expr::Ph(i, _) => {
                let _ = write!(s, "(ph {i})");
            }
            Expr::Bin(op, a, b) => {
                let _ = write!(s, "(bin {} ", op.sexp());
                a.sexp_into(s);
                s.push(' ');
                b.sexp_into(s);
                s.push(')');
            }
            Expr::Not(a) => {
                s.push_str("(not ");
                a.sexp_into(s);
                s.push(')');
            }
            Expr::Neg(a) => {
                s.push_str("(neg ");
                a.sexp_into(s);
                s.push(')');
            }
            Expr::Is(k, n, a) => {
                let k = match k {
                    IsKind::Null => "null",
                    IsKind::True => "true",
                    IsKind::False => "false",
                    IsKind::Unknown => "unknown",
                };
                let _ = write!(s, "(is {k} {} ", b2a(*n));
                a.sexp_into(s);
                s.push(')');
            }
            Expr::In(n, a, l) => {
                let _ = write!(s, "(in {} ", b2a(*n));
                a.sexp_into(s);
                for e in l {
                    s.push(' ');
                    e.sexp_into(s);
                }
                s.push(')');
            }
            Expr::Between(n, a, lo, hi) => {
                let _ = write!(s, "(between {} ", b2a(*n));
                a.sexp_into(s);
                s.push(' ');
                lo.sexp_into(s);
                s.push(' ');
                hi.sexp_into(s);
                s.push(')');
            }
            Expr::Case(op, whens, els) => {
                s.push_str("(case (");
                if let Some(o) = op {
                    o.sexp_into(s);
                }
                s.push_str(") (");
                for (i, (w, t)) in whens.iter().enumerate() {
                    if i > 0 {
                        s.push(' ');
                    }
                    s.push('(');
                    w.sexp_into(s);
                    s.push(' ');
                    t.sexp_into(s);
                    s.push(')');
                }
                s.push_str(") (");
                if let Some(e) = els {
                    e.sexp_into(s);
                }
                s.push_str("))");
            }
            Expr::Coalesce(args) => {
                s.push_str("(coalesce");
                for e in args {
                    s.push(' ');
                    e.sexp_into(s);
                }
                s.push(')');
            }
            Expr::Nullif(a, b) => {
                s.push_str("(nullif ");
                a.sexp_into(s);
                s.push(' ');
                b.sexp_into(s);
                s.push(')');
            }
            Expr::Cast { ty, try_, e, .. } => {
                let _ = write!(s, "(cast {} {} ", ty.sexp(), b2a(*try_));
                e.sexp_into(s);
                s.push(')');
            }
            Expr::Like { neg, ci, e, pat, esc } => {
                let _ = write!(s, "(like {} {} ", b2a(*neg), b2a(*ci));
                e.sexp_into(s);
                s.push(' ');
                pat.sexp_into(s);
                match esc {
                    Some(c) => {
                        let _ = write!(s, " ({}))", *c as u32);
                    }
                    None => s.push_str(" ())"),
                }
            }
            Expr::Sub { .. } => s.push_str("(UNLOWERED-SUBQUERY)"),
        }
    }

    pub fn sql(&self, sc: &Scope) -> String {
        match self {
            Expr::Col(i) => sc.cols[*i].sql.clone(),
            Expr::Outer(i) => sc.outer[*i].sql.clone(),
            Expr::Lit(v, ty, bare) => v.sql(*ty, *bare),
            Expr::Ph(i, _) => format!("${}", i + 1),
            Expr::Bin(op, a, b) => format!("({} {} {})", a.sql(sc), op.sql(), b.sql(sc)),
            Expr::Not(a) => format!("(NOT {})", a.sql(sc)),
            Expr::Neg(a) => format!("(- {})", a.sql(sc)),
            Expr::Is(k, n, a) => {
                let k = match k {
                    IsKind::Null => "NULL",
                    IsKind::True => "TRUE",
                    IsKind::False => "FALSE",
                    IsKind::Unknown => "UNKNOWN",
                };
                format!("({} IS {}{})", a.sql(sc), if *n { "NOT " } else { "" }, k)
            }
            Expr::In(n, a, l) => format!(
                "({} {}IN ({}))",
                a.sql(sc),
                if *n { "NOT " } else { "" },
                l.iter().map(|e| e.sql(sc)).collect::<Vec<_>>().join(", ")
            ),
            Expr::Between(n, a, lo, hi) => {
                format!("({} {}BETWEEN {} AND {})", a.sql(sc), if *n { "NOT " } else { "" }, lo.sql(sc), hi.sql(sc))
            }
            Expr::Case(op, whens, els) => {
                let mut s = String::from("CASE");
                if let Some(o) = op {
                    let _ = write!(s, " {}", o.sql(sc));
                }
                for (w, t) in whens {
                    let _ = write!(s, " WHEN {} THEN {}", w.sql(sc), t.sql(sc));
                }
                if let Some(e) = els {
                    let _ = write!(s, " ELSE {}", e.sql(sc));
                }
                s.push_str(" END");
                s
            }
            Expr::Coalesce(args) => format!("COALESCE({})", args.iter().map(|e| e.sql(sc)).collect::<Vec<_>>().join(", ")),
            Expr::Nullif(a, b) => format!("NULLIF({}, {})", a.sql(sc), b.sql(sc)),
            Expr::Cast { ty, try_, implicit, e } => {
                if *implicit {
                    e.sql(sc)
                } else {
                    format!("{}({} AS {})", if *try_ { "TRY_CAST" } else { "CAST" }, e.sql(sc), ty.sql())
                }
            }
            Expr::Like { neg, ci, e, pat, esc } => {
                let mut s = format!("({} {}{} {}", e.sql(sc), if *neg { "NOT " } else { "" }, if *ci { "ILIKE" } else { "LIKE" }, pat.sql(sc));
                if let Some(c) = esc {
                    let _ = write!(s, " ESCAPE '{}'", c);
                }
                s.push(')');
                s
            }
            Expr::Sub { kind, neg, x, q } => {
                // the sub-query sees this query's columns as its outer scope
                let inner_outer = sc.cols.clone();
                let qs = q.sql_with_outer(&inner_outer);
                let n = if *neg { "NOT " } else { "" };
                match kind {
                    SubKind::Exists => format!("({n}EXISTS ({qs}))"),
                    SubKind::Scalar => format!("({qs})"),
                    SubKind::In => format!("({} {n}IN ({qs}))", x.as_ref().unwrap().sql(sc)),
                    SubKind::Quant(op, all) => {
                        let body = format!("({} {} {} ({qs}))", x.as_ref().unwrap().sql(sc), op.sql(), if *all { "ALL" } else { "ANY" });
                        if *neg { format!("(NOT {body})") } else { body }
                    }
                }
            }
        }
    }

    /// structural statistics: which constructs occur
    pub fn constructs(&self, out: &mut std::collections::BTreeSet<&'static str>) {
        match self {
            Expr::Col(_) => {
                out.insert("col");
            }
            Expr::Outer(_) => {
                out.insert("outer-ref");
            }
            Expr::Lit(v, _, _) => {
                out.insert(if *v == Val::Null { "lit-null" } else { "lit" });
            }
            Expr::Ph(..) => {
                out.insert("placeholder");
            }
            Expr::Bin(op, a, b) => {
                out.insert(match op {
                    Op::Add | Op::Sub | Op::Mul => "arith",
                    Op::Div | Op::Mod => "div-mod",
                    Op::And | Op::Or => "and-or",
                    Op::Distinct | Op::NotDistinct => "is-distinct",
                    Op::Concat => "concat",
                    _ => "compare",
                });
                a.constructs(out);
                b.constructs(out);
            }
            Expr::Not(a) => {
                out.insert("not");
                a.constructs(out);
            }
            Expr::Neg(a) => {
                out.insert("neg");
                a.constructs(out);
            }
            Expr::Is(k, _, a) => {
                out.insert(if *k == IsKind::Null { "is-null" } else { "is-true-false-unknown" });
                a.constructs(out);
            }
            Expr::In(_, a, l) => {
                out.insert("in-list");
                a.constructs(out);
                l.iter().for_each(|e| e.constructs(out));
            }
            Expr::Between(_, a, lo, hi) => {
                out.insert("between");
                a.constructs(out);
                lo.constructs(out);
                hi.constructs(out);
            }
            Expr::Case(op, whens, els) => {
                out.insert(if op.is_some() { "case-simple" } else { "case-searched" });
                if let Some(o) = op {
                    o.constructs(out);
                }
                for (w, t) in whens {
                    w.constructs(out);
                    t.constructs(out);
                }
                if let Some(e) = els {
                    e.constructs(out);
                }
            }
            Expr::Coalesce(args) => {
                out.insert("coalesce");
                args.iter().for_each(|e| e.constructs(out));
            }
            Expr::Nullif(a, b) => {
                out.insert("nullif");
                a.constructs(out);
                b.constructs(out);
            }
            Expr::Cast { try_, implicit, e, .. } => {
                out.insert(if *implicit {
                    "implicit-widening"
                } else if *try_ {
                    "try-cast"
                } else {
                    "cast"
                });
                e.constructs(out);
            }
            Expr::Like { e, pat, ci, .. } => {
                out.insert(if *ci { "ilike" } else { "like" });
                e.constructs(out);
                pat.constructs(out);
            }
            Expr::Sub { kind, neg, x, .. } => {
                out.insert(match (kind, neg) {
                    (SubKind::Exists, false) => "exists",
                    (SubKind::Exists, true) => "not-exists",
                    (SubKind::Scalar, _) => "scalar-subquery",
                    (SubKind::In, false) => "in-subquery",
                    (SubKind::In, true) => "not-in-subquery",
                    (SubKind::Quant(_, true), _) => "all-subquery",
                    (SubKind::Quant(_, false), _) => "any-subquery",
                });
                if let Some(x) = x {
                    x.constructs(out);
                }
            }
        }
    }

    pub fn has_div(&self) -> bool {
        let mut s = std::collections::BTreeSet::new();
        self.constructs(&mut s);
        s.contains("div-mod") || s.contains("cast")
    }
}

// ------------------------------------------------------------------------------------ queries

#[derive(Clone, Copy, PartialEq, Eq, Debug)]
pub enum Jt {
    Inner,
    Left,
    Right,
    Full,
    LeftSemi,
    RightSemi,
    LeftAnti,
    RightAnti,
}
impl Jt {
    pub fn sql(&self) -> &'static str {
        match self {
            Jt::Inner => "INNER JOIN",
            Jt::Left => "LEFT JOIN",
            Jt::Right => "RIGHT JOIN",
            Jt::Full => "FULL JOIN",
            Jt::LeftSemi => "LEFT SEMI JOIN",
            Jt::RightSemi => "RIGHT SEMI JOIN",
            Jt::LeftAnti => "LEFT ANTI JOIN",
            Jt::RightAnti => "RIGHT ANTI JOIN",
        }
    }
    pub fn sexp(&self) -> &'static str {
        match self {
            Jt::Inner => "inner",
            Jt::Left => "left",
            Jt::Right => "right",
            Jt::Full => "full",
            Jt::LeftSemi => "leftsemi",
            Jt::RightSemi => "rightsemi",
            Jt::LeftAnti => "leftanti",
            Jt::RightAnti => "rightanti",
        }
    }
    pub const ALL: [Jt; 8] = [Jt::Inner, Jt::Left, Jt::Right, Jt::Full, Jt::LeftSemi, Jt::RightSemi, Jt::LeftAnti, Jt::RightAnti];
}

#[derive(Clone, Debug, PartialEq)]
pub struct TableDef {
    pub name: String,
    pub cols: Vec<(String, Ty)>,
    pub rows: Vec<Vec<Val>>,
}

#[derive(Clone, Debug, PartialEq)]
pub enum From {
    Table { name: String, cols: Vec<(String, Ty)>, alias: String },
    /// `on` is over the concatenation of both sides' columns
    Join { jt: Jt, l: Box<From>, r: Box<From>, on: Expr },
    Derived { q: Box<Query>, alias: String },
}

#[derive(Clone, Copy, PartialEq, Eq, Debug)]
pub enum AggFn {
    CountStar,
    Count,
    Sum,
    Min,
    Max,
}

#[derive(Clone, Debug, PartialEq)]
pub struct AggCall {
    pub f: AggFn,
    pub distinct: bool,
    pub arg: Expr,
    pub filter: Option<Expr>,
    pub ty: Ty,
}

#[derive(Clone, Debug, PartialEq)]
pub struct Group {
    pub keys: Vec<(Expr, Ty)>,
    pub aggs: Vec<AggCall>,
    /// over the post-aggregation columns `keys ++ aggs`
    pub having: Option<Expr>,
}

#[derive(Clone, Debug, PartialEq)]
pub struct Select {
    pub from: From,
    pub where_: Option<Expr>,
    pub group: Option<Group>,
    /// over the FROM scope, or over `keys ++ aggs` when grouped
    pub proj: Vec<(Expr, Ty)>,
    pub distinct: bool,
}

#[derive(Clone, Copy, PartialEq, Eq, Debug)]
pub enum SetKind {
    Union,
    Intersect,
    Except,
}

#[derive(Clone, Debug, PartialEq)]
pub enum Body {
    Select(Box<Select>),
    SetOp { kind: SetKind, all: bool, l: Box<Query>, r: Box<Query> },
}

#[derive(Clone, Copy, Debug, PartialEq)]
pub struct OrderItem {
    pub col: usize,
    pub desc: bool,
    pub nulls_first: Option<bool>,
}

#[derive(Clone, Debug, PartialEq)]
pub struct Query {
    pub body: Body,
    pub order: Vec<OrderItem>,
    pub limit: Option<(u64, Option<u64>)>,
}

impl From {
    pub fn scope(&self) -> Vec<ColInfo> {
        match self {
            From::Table { cols, alias, .. } => cols.iter().map(|(n, t)| ColInfo { sql: format!("{alias}.{n}"), ty: *t }).collect(),
            From::Join { jt, l, r, .. } => match jt {
                Jt::LeftSemi | Jt::LeftAnti => l.scope(),
                Jt::RightSemi | Jt::RightAnti => r.scope(),
                _ => {
                    let mut v = l.scope();
                    v.extend(r.scope());
                    v
                }
            },
            From::Derived { q, alias } => q.out_types().iter().enumerate().map(|(i, t)| ColInfo { sql: format!("{alias}.k{i}"), ty: *t }).collect(),
        }
    }
    fn sql(&self, outer: &[ColInfo]) -> String {
        match self {
            From::Table { name, alias, .. } => format!("{name} AS {alias}"),
            From::Join { jt, l, r, on } => {
                let mut cols = l.scope();
                cols.extend(r.scope());
                let sc = Scope { cols, outer: outer.to_vec() };
                format!("({} {} {} ON {})", l.sql(outer), jt.sql(), r.sql(outer), on.sql(&sc))
            }
            From::Derived { q, alias } => format!("({}) AS {alias}", q.sql_with_outer(&[])),
        }
    }
    fn plan(&self) -> String {
        match self {
            From::Table { name, .. } => format!("(scan {name})"),
            From::Join { jt, l, r, on } => format!("(join {} f () ({}) {} {})", jt.sexp(), on.sexp(), l.plan(), r.plan()),
            From::Derived { q, .. } => q.plan(),
        }
    }
    pub fn n_joins(&self) -> usize {
        match self {
            From::Join { l, r, .. } => 1 + l.n_joins() + r.n_joins(),
            _ => 0,
        }
    }
}

impl AggCall {
    fn sql(&self, sc: &Scope) -> String {
        let mut s = match self.f {
            AggFn::CountStar => "COUNT(*)".to_string(),
            f => format!(
                "{}({}{})",
                match f {
                    AggFn::Count => "COUNT",
                    AggFn::Sum => "SUM",
                    AggFn::Min => "MIN",
                    _ => "MAX",
                },
                if self.distinct { "DISTINCT " } else { "" },
                self.arg.sql(sc)
            ),
        };
        if let Some(f) = &self.filter {
            let _ = write!(s, " FILTER (WHERE {})", f.sql(sc));
        }
        s
    }
    fn sexp(&self) -> String {
        let f = match self.f {
            AggFn::CountStar => "count_star",
            AggFn::Count => "count",
            AggFn::Sum => "sum",
            AggFn::Min => "min",
            AggFn::Max => "max",
        };
        format!(
            "({f} {} {} ({}))",
            b2a(self.distinct && self.f != AggFn::CountStar),
            if self.f == AggFn::CountStar { "(lit null)".to_string() } else { self.arg.sexp() },
            self.filter.as_ref().map(|e| e.sexp()).unwrap_or_default()
        )
    }
}

/// Replace sub-query expressions by references to appended columns `base + k` and collect them.
fn extract_subs(e: &Expr, base: usize, subs: &mut Vec<(SubKind, Option<Expr>, Query)>) -> Expr {
    let rec = |x: &Expr, subs: &mut Vec<(SubKind, Option<Expr>, Query)>| Box::new(extract_subs(x, base, subs));
    match e {
        Expr::Sub { kind, neg, x, q } => {
            let xl = x.as_ref().map(|x| extract_subs(x, base, subs));
            let idx = base + subs.len();
            subs.push((kind.clone(), xl, (**q).clone()));
            let c = Expr::Col(idx);
            if *neg { Expr::Not(Box::new(c)) } else { c }
        }
        Expr::Bin(op, a, b) => Expr::Bin(*op, rec(a, subs), rec(b, subs)),
        Expr::Not(a) => Expr::Not(rec(a, subs)),
        Expr::Neg(a) => Expr::Neg(rec(a, subs)),
        Expr::Is(k, n, a) => Expr::Is(*k, *n, rec(a, subs)),
        Expr::In(n, a, l) => Expr::In(*n, rec(a, subs), l.iter().map(|x| extract_subs(x, base, subs)).collect()),
        Expr::Between(n, a, lo, hi) => Expr::Between(*n, rec(a, subs), rec(lo, subs), rec(hi, subs)),
        Expr::Case(op, whens, els) => Expr::Case(
            op.as_ref().map(|o| rec(o, subs)),
            whens.iter().map(|(w, t)| (extract_subs(w, base, subs), extract_subs(t, base, subs))).collect(),
            els.as_ref().map(|o| rec(o, subs)),
        ),
        Expr::Coalesce(args) => Expr::Coalesce(args.iter().map(|x| extract_subs(x, base, subs)).collect()),
        Expr::Nullif(a, b) => Expr::Nullif(rec(a, subs), rec(b, subs)),
        Expr::Cast { ty, try_, implicit, e } => Expr::Cast { ty: *ty, try_: *try_, implicit: *implicit, e: rec(e, subs) },
        Expr::Like { neg, ci, e, pat, esc } => Expr::Like { neg: *neg, ci: *ci, e: rec(e, subs), pat: rec(pat, subs), esc: *esc },
        e => e.clone(),
    }
}

impl Select {
    pub fn out_types(&self) -> Vec<Ty> {
        self.proj.iter().map(|(_, t)| *t).collect()
    }
    fn post_scope(&self, from_sc: &Scope) -> Scope {
        match &self.group {
            None => from_sc.clone(),
            Some(g) => {
                let mut cols = vec![];
                for (k, t) in &g.keys {
                    cols.push(ColInfo { sql: k.sql(from_sc), ty: *t });
                }
                for a in &g.aggs {
                    cols.push(ColInfo { sql: a.sql(from_sc), ty: a.ty });
                }
                Scope { cols, outer: from_sc.outer.clone() }
            }
        }
    }
    fn sql(&self, outer: &[ColInfo]) -> String {
        let from_sc = Scope { cols: self.from.scope(), outer: outer.to_vec() };
        let post = self.post_scope(&from_sc);
        let mut s = String::from("SELECT ");
        if self.distinct {
            s.push_str("DISTINCT ");
        }
        for (i, (e, _)) in self.proj.iter().enumerate() {
            if i > 0 {
                s.push_str(", ");
            }
            let _ = write!(s, "{} AS k{i}", e.sql(&post));
        }
        let _ = write!(s, " FROM {}", self.from.sql(outer));
        if let Some(w) = &self.where_ {
            let _ = write!(s, " WHERE {}", w.sql(&from_sc));
        }
        if let Some(g) = &self.group {
            if !g.keys.is_empty() {
                let _ = write!(s, " GROUP BY {}", g.keys.iter().map(|(k, _)| k.sql(&from_sc)).collect::<Vec<_>>().join(", "));
            }
            if let Some(h) = &g.having {
                let _ = write!(s, " HAVING {}", h.sql(&post));
            }
        }
        s
    }
    fn plan(&self) -> String {
        let mut p = self.from.plan();
        if let Some(w) = &self.where_ {
            let base = self.from.scope().len();
            let mut subs = vec![];
            let w2 = extract_subs(w, base, &mut subs);
            for (kind, x, q) in &subs {
                let k = match kind {
                    SubKind::Exists => "exists".to_string(),
                    SubKind::Scalar => "scalar".to_string(),
                    SubKind::In => "in".to_string(),
                    SubKind::Quant(op, all) => format!("(quant {} {})", op.sexp(), b2a(*all)),
                };
                p = format!("(apply {k} ({}) {p} {})", x.as_ref().map(|e| e.sexp()).unwrap_or_default(), q.plan());
            }
            p = format!("(filter {} {p})", w2.sexp());
        }
        if let Some(g) = &self.group {
            p = format!(
                "(aggregate ({}) ({}) {p})",
                g.keys.iter().map(|(k, _)| k.sexp()).collect::<Vec<_>>().join(" "),
                g.aggs.iter().map(|a| a.sexp()).collect::<Vec<_>>().join(" ")
            );
            if let Some(h) = &g.having {
                p = format!("(filter {} {p})", h.sexp());
            }
        }
        p = format!("(project ({}) {p})", self.proj.iter().map(|(e, _)| e.sexp()).collect::<Vec<_>>().join(" "));
        if self.distinct {
            p = format!("(distinct {p})");
        }
        p
    }
}

impl Query {
    pub fn select(s: Select) -> Query {
        Query { body: Body::Select(Box::new(s)), order: vec![], limit: None }
    }
    pub fn out_types(&self) -> Vec<Ty> {
        match &self.body {
            Body::Select(s) => s.out_types(),
            Body::SetOp { l, .. } => l.out_types(),
        }
    }
    pub fn sql(&self) -> String {
        self.sql_with_outer(&[])
    }
    pub fn sql_with_outer(&self, outer: &[ColInfo]) -> String {
        let mut s = match &self.body {
            Body::Select(sel) => sel.sql(outer),
            Body::SetOp { kind, all, l, r } => format!(
                "({}) {}{} ({})",
                l.sql_with_outer(outer),
                match kind {
                    SetKind::Union => "UNION",
                    SetKind::Intersect => "INTERSECT",
                    SetKind::Except => "EXCEPT",
                },
                if *all { " ALL" } else { "" },
                r.sql_with_outer(outer)
            ),
        };
        if !self.order.is_empty() {
            s.push_str(" ORDER BY ");
            for (i, o) in self.order.iter().enumerate() {
                if i > 0 {
                    s.push_str(", ");
                }
                let _ = write!(s, "{}{}", o.col + 1, if o.desc { " DESC" } else { " ASC" });
                match o.nulls_first {
                    Some(true) => s.push_str(" NULLS FIRST"),
                    Some(false) => s.push_str(" NULLS LAST"),
                    None => {}
                }
            }
        }
        if let Some((skip, fetch)) = self.limit {
            if let Some(f) = fetch {
                let _ = write!(s, " LIMIT {f}");
            }
            if skip > 0 {
                let _ = write!(s, " OFFSET {skip}");
            }
        }
        s
    }
    /// the model plan (s-expression)
    pub fn plan(&self) -> String {
        let mut p = match &self.body {
            Body::Select(sel) => sel.plan(),
            Body::SetOp { kind, all, l, r } => format!(
                "(setop {} {} {} {})",
                match kind {
                    SetKind::Union => "union",
                    SetKind::Intersect => "intersect",
                    SetKind::Except => "except",
                },
                b2a(*all),
                l.plan(),
                r.plan()
            ),
        };
        if !self.order.is_empty() {
            p = format!("(sort ({}) {p})", self.order_sexp());
        }
        if let Some((skip, fetch)) = self.limit {
            p = format!("(limit {skip} ({}) {p})", fetch.map(|f| f.to_string()).unwrap_or_default());
        }
        p
    }
    /// `((col i) desc nullsfirst)*` with the engine's default NULL placement made explicit:
    /// NULLS LAST for ASC, NULLS FIRST for DESC (`default_null_ordering = nulls_max`)
    pub fn order_sexp(&self) -> String {
        self.order.iter().map(|o| format!("((col {}) {} {})", o.col, b2a(o.desc), b2a(o.nulls_first.unwrap_or(o.desc)))).collect::<Vec<_>>().join(" ")
    }
    pub fn order_is_total(&self) -> bool {
        let n = self.out_types().len();
        (0..n).all(|c| self.order.iter().any(|o| o.col == c))
    }
    /// construct statistics for the evidence file
    pub fn constructs(&self, out: &mut std::collections::BTreeSet<&'static str>) {
        fn walk_expr(e: &Expr, out: &mut std::collections::BTreeSet<&'static str>) {
            e.constructs(out);
            walk_subs(e, out);
        }
        fn walk_subs(e: &Expr, out: &mut std::collections::BTreeSet<&'static str>) {
            match e {
                Expr::Sub { q, x, .. } => {
                    q.constructs(out);
                    if let Some(x) = x {
                        walk_subs(x, out);
                    }
                }
                Expr::Bin(_, a, b) | Expr::Nullif(a, b) => {
                    walk_subs(a, out);
                    walk_subs(b, out);
                }
                Expr::Not(a) | Expr::Neg(a) | Expr::Is(_, _, a) => walk_subs(a, out),
                _ => {}
            }
        }
        fn walk_from(f: &From, out: &mut std::collections::BTreeSet<&'static str>) {
            match f {
                From::Table { .. } => {}
                From::Join { jt, l, r, on } => {
                    out.insert(match jt {
                        Jt::Inner => "join-inner",
                        Jt::Left => "join-left",
                        Jt::Right => "join-right",
                        Jt::Full => "join-full",
                        Jt::LeftSemi => "join-leftsemi",
                        Jt::RightSemi => "join-rightsemi",
                        Jt::LeftAnti => "join-leftanti",
                        Jt::RightAnti => "join-rightanti",
                    });
                    walk_expr(on, out);
                    walk_from(l, out);
                    walk_from(r, out);
                }
                From::Derived { q, .. } => {
                    out.insert("derived-table");
                    q.constructs(out);
                }
            }
        }
        match &self.body {
            Body::Select(s) => {
                walk_from(&s.from, out);
                if let Some(w) = &s.where_ {
                    out.insert("where");
                    walk_expr(w, out);
                }
                if let Some(g) = &s.group {
                    out.insert(if g.keys.is_empty() { "aggregate-global" } else { "group-by" });
                    for (k, _) in &g.keys {
                        walk_expr(k, out);
                    }
                    for a in &g.aggs {
                        out.insert(match a.f {
                            AggFn::CountStar => "count-star",
                            AggFn::Count => "count",
                            AggFn::Sum => "sum",
                            AggFn::Min => "min",
                            AggFn::Max => "max",
                        });
                        if a.distinct {
                            out.insert("agg-distinct");
                        }
                        if a.filter.is_some() {
                            out.insert("agg-filter");
                        }
                        walk_expr(&a.arg, out);
                    }
                    if let Some(h) = &g.having {
                        out.insert("having");
                        walk_expr(h, out);
                    }
                }
                for (e, _) in &s.proj {
                    walk_expr(e, out);
                }
                if s.distinct {
                    out.insert("select-distinct");
                }
            }
            Body::SetOp { kind, all, l, r } => {
                out.insert(match (kind, all) {
                    (SetKind::Union, true) => "union-all",
                    (SetKind::Union, false) => "union",
                    (SetKind::Intersect, true) => "intersect-all",
                    (SetKind::Intersect, false) => "intersect",
                    (SetKind::Except, true) => "except-all",
                    (SetKind::Except, false) => "except",
                });
                l.constructs(out);
                r.constructs(out);
            }
        }
        if !self.order.is_empty() {
            out.insert("order-by");
        }
        if let Some((s, f)) = self.limit {
            if f.is_some() {
                out.insert("limit");
            }
            if s > 0 {
                out.insert("offset");
            }
        }
    }
}

pub fn db_sexp(db: &[TableDef]) -> String {
    let mut s = String::from("(");
    for (i, t) in db.iter().enumerate() {
        if i > 0 {
            s.push(' ');
        }
        let _ = write!(s, "({} {} {})", t.name, t.cols.len(), rows_sexp(&t.rows));
    }
    s.push(')');
    s
}

// ------------------------------------------------------------------------------------ data generation

pub const STRS: [&str; 14] = ["", "a", "ab", "abc", "b", "A", "aB", "12", "-3", " 7", "a%", "a_c", "abcabc", "+4"];

pub fn gen_val(rng: &mut Rng, ty: Ty, null_pct: u64) -> Val {
    if rng.below(100) < null_pct {
        return Val::Null;
    }
    match ty {
        Ty::Int(w) => {
            let n = match rng.below(16) {
                0 => int_min(w),
                1 => int_max(w),
                2 => int_min(w) + 1,
                3 => int_max(w) - 1,
                4 | 5 => 0,
                6 | 7 => 1,
                8 => -1,
                9 | 10 => 2,
                11 => 3,
                12 => -2,
                13 => 7,
                14 => 10,
                _ => rng.range(-5, 12),
            };
            Val::Int(w, n)
        }
        Ty::Bool => Val::Bool(rng.chance(1, 2)),
        Ty::Str => Val::Str(rng.pick(&STRS).to_string()),
    }
}

/// small-domain values used for "moderate" integers (sums/products stay far from the boundary)
pub fn gen_small_val(rng: &mut Rng, ty: Ty, null_pct: u64) -> Val {
    if rng.below(100) < null_pct {
        return Val::Null;
    }
    match ty {
        Ty::Int(w) => Val::Int(w, *rng.pick(&[0, 0, 1, 1, 2, 2, 3, -1, -2, 5, 7])),
        t => gen_val(rng, t, 0),
    }
}

pub fn gen_ty(rng: &mut Rng) -> Ty {
    match rng.below(10) {
        0..=3 => Ty::Int(64),
        4 => Ty::Int(32),
        5 => Ty::Int(8),
        6 => Ty::Int(16),
        7 => Ty::Bool,
        _ => Ty::Str,
    }
}

/// 1–3 tables `t1..`, 2–4 typed nullable columns each (every table has at least one BIGINT
/// column so that joins always find comparable columns), 0–`max_rows` rows.
pub fn gen_db(rng: &mut Rng, max_rows: u64) -> Vec<TableDef> {
    let nt = 1 + rng.below(3) as usize;
    let mut db = vec![];
    for t in 0..nt {
        let nc = 2 + rng.below(3) as usize;
        let mut cols = vec![];
        for c in 0..nc {
            let ty = if c == 0 { Ty::Int(64) } else { gen_ty(rng) };
            cols.push((format!("{}{}", (b'a' + c as u8) as char, t + 1), ty));
        }
        let mut tdef = TableDef { name: format!("t{}", t + 1), cols, rows: vec![] };
        fill_rows(rng, &mut tdef, max_rows);
        db.push(tdef);
    }
    db
}

pub fn fill_rows(rng: &mut Rng, t: &mut TableDef, max_rows: u64) {
    let nr = if rng.chance(1, 12) { 0 } else { rng.below(max_rows + 1) as usize };
    let null_pct = *rng.pick(&[0u64, 10, 25, 50]);
    let small = rng.chance(1, 2);
    t.rows.clear();
    for _ in 0..nr {
        // duplicate-heavy: sometimes repeat a previous row
        if !t.rows.is_empty() && rng.chance(1, 4) {
            let r = t.rows[rng.below(t.rows.len() as u64) as usize].clone();
            t.rows.push(r);
            continue;
        }
        let row = t.cols.iter().map(|(_, ty)| if small { gen_small_val(rng, *ty, null_pct) } else { gen_val(rng, *ty, null_pct) }).collect();
        t.rows.push(row);
    }
}

// ------------------------------------------------------------------------------------ expression generation

pub struct ExprGen<'a> {
    pub cols: &'a [ColInfo],
    pub outer: &'a [ColInfo],
    /// probability (percent) that an arithmetic node is `/` or `%` with an unguarded divisor, and of
    /// explicit narrowing / string→int casts (the error sources)
    pub err_pct: u64,
    /// allow `ph` … not used by C01
    pub allow_like: bool,
}

impl<'a> ExprGen<'a> {
    fn cols_of(&self, ty: Ty) -> Vec<usize> {
        self.cols.iter().enumerate().filter(|(_, c)| c.ty == ty).map(|(i, _)| i).collect()
    }
    fn outer_of(&self, ty: Ty) -> Vec<usize> {
        self.outer.iter().enumerate().filter(|(_, c)| c.ty == ty).map(|(i, _)| i).collect()
    }
    pub fn lit(&self, rng: &mut Rng, ty: Ty) -> Expr {
        let v = match ty {
            Ty::Int(w) => {
                if rng.chance(1, 10) {
                    Val::Null
                } else {
                    Val::Int(w, *rng.pick(&[0, 1, 1, 2, 2, 3, -1, -1, 5, 7, 10, int_max(w), int_min(w) + 1]))
                }
            }
            t => gen_val(rng, t, 10),
        };
        Expr::Lit(v, ty, rng.chance(1, 3))
    }
    pub fn leaf(&self, rng: &mut Rng, ty: Ty) -> Expr {
        let cs = self.cols_of(ty);
        let os = self.outer_of(ty);
        let r = rng.below(10);
        if !os.is_empty() && r < 2 {
            return Expr::Outer(*rng.pick(&os));
        }
        if !cs.is_empty() && r < 7 {
            return Expr::Col(*rng.pick(&cs));
        }
        // a column of another integer width, implicitly widened / explicitly cast
        if let Ty::Int(w) = ty {
            let others: Vec<usize> = self.cols.iter().enumerate().filter(|(_, c)| matches!(c.ty, Ty::Int(w2) if w2 != w)).map(|(i, _)| i).collect();
            if !others.is_empty() && r < 9 {
                let i = *rng.pick(&others);
                if let Ty::Int(w2) = self.cols[i].ty {
                    if w2 < w || rng.below(100) < self.err_pct {
                        return Expr::Cast { ty, try_: false, implicit: false, e: Box::new(Expr::Col(i)) };
                    } else {
                        return Expr::Cast { ty, try_: true, implicit: false, e: Box::new(Expr::Col(i)) };
                    }
                }
            }
        }
        self.lit(rng, ty)
    }

    /// an expression of type `ty` of depth ≤ `d`
    pub fn expr(&self, rng: &mut Rng, ty: Ty, d: u32) -> Expr {
        if d == 0 || rng.chance(1, 5) {
            return self.leaf(rng, ty);
        }
        let b = |e: Expr| Box::new(e);
        // constructs available at every type
        match rng.below(12) {
            0 => {
                // searched CASE
                let n = 1 + rng.below(2) as usize;
                let whens = (0..n).map(|_| (self.expr(rng, Ty::Bool, d - 1), self.expr(rng, ty, d - 1))).collect();
                let els = if rng.chance(2, 3) { Some(b(self.expr(rng, ty, d - 1))) } else { None };
                return Expr::Case(None, whens, els);
            }
            1 => {
                // simple CASE over some operand type
                let ot = if rng.chance(1, 2) { Ty::Int(64) } else { self.any_ty(rng) };
                let n = 1 + rng.below(2) as usize;
                let op = self.expr(rng, ot, d - 1);
                let whens = (0..n).map(|_| (self.expr(rng, ot, 0), self.expr(rng, ty, d - 1))).collect();
                let els = if rng.chance(2, 3) { Some(b(self.expr(rng, ty, d - 1))) } else { None };
                return Expr::Case(Some(b(op)), whens, els);
            }
            2 => {
                let n = 2 + rng.below(2) as usize;
                return Expr::Coalesce((0..n).map(|_| self.expr(rng, ty, d - 1)).collect());
            }
            3 => {
                if ty != Ty::Bool {
                    return Expr::Nullif(b(self.expr(rng, ty, d - 1)), b(self.expr(rng, ty, 0)));
                }
            }
            _ => {}
        }
        match ty {
            Ty::Int(w) => match rng.below(10) {
                0..=4 => {
                    let op = *rng.pick(&[Op::Add, Op::Add, Op::Sub, Op::Sub, Op::Mul, Op::Mul, Op::Div, Op::Mod]);
                    let l = self.expr(rng, ty, d - 1);
                    let r = if matches!(op, Op::Div | Op::Mod) {
                        if rng.below(100) < self.err_pct {
                            self.expr(rng, ty, d - 1)
                        } else if rng.chance(1, 2) {
                            // guarded divisor
                            Expr::Nullif(b(self.expr(rng, ty, d - 1)), b(Expr::Lit(Val::Int(w, 0), ty, false)))
                        } else {
                            Expr::Lit(Val::Int(w, *rng.pick(&[1, 2, 3, -2, 7])), ty, false)
                        }
                    } else {
                        self.expr(rng, ty, d - 1)
                    };
                    Expr::Bin(op, b(l), b(r))
                }
                5 => Expr::Neg(b(self.expr(rng, ty, d - 1))),
                6 => {
                    // widen a narrower integer expression (implicit when it is an operand position the
                    // coercion rules cover; here always written explicitly)
                    let w2 = *rng.pick(&[8u8, 16, 32, 64]);
                    let e = self.expr(rng, Ty::Int(w2), d - 1);
                    if w2 == w {
                        e
                    } else if w2 < w {
                        Expr::Cast { ty, try_: rng.chance(1, 4), implicit: false, e: b(e) }
                    } else {
                        // narrowing: errors when out of range unless TRY_CAST
                        let try_ = rng.below(100) >= self.err_pct;
                        Expr::Cast { ty, try_, implicit: false, e: b(e) }
                    }
                }
                7 => {
                    // string → integer
                    let try_ = rng.below(100) >= self.err_pct;
                    Expr::Cast { ty, try_, implicit: false, e: b(self.expr(rng, Ty::Str, d - 1)) }
                }
                8 => Expr::Cast { ty, try_: false, implicit: false, e: b(self.expr(rng, Ty::Bool, d - 1)) },
                _ => self.leaf(rng, ty),
            },
            Ty::Bool => match rng.below(16) {
                0..=4 => {
                    let t = self.any_ty(rng);
                    let op = *rng.pick(&Op::CMP);
                    let (l, r) = self.comparable_pair(rng, t, d - 1);
                    Expr::Bin(op, b(l), b(r))
                }
                5 | 6 => Expr::Bin(*rng.pick(&[Op::And, Op::Or]), b(self.expr(rng, Ty::Bool, d - 1)), b(self.expr(rng, Ty::Bool, d - 1))),
                7 => Expr::Not(b(self.expr(rng, Ty::Bool, d - 1))),
                8 => {
                    let t = self.any_ty(rng);
                    Expr::Is(IsKind::Null, rng.chance(1, 2), b(self.expr(rng, t, d - 1)))
                }
                9 => Expr::Is(*rng.pick(&[IsKind::True, IsKind::False, IsKind::Unknown]), rng.chance(1, 2), b(self.expr(rng, Ty::Bool, d - 1))),
                10 => {
                    let t = self.any_ty(rng);
                    let (l, r) = self.comparable_pair(rng, t, d - 1);
                    Expr::Bin(*rng.pick(&[Op::Distinct, Op::NotDistinct]), b(l), b(r))
                }
                11 | 12 => {
                    let t = if rng.chance(2, 3) { Ty::Int(64) } else { self.any_ty(rng) };
                    let n = 1 + rng.below(4) as usize;
                    let x = self.expr(rng, t, d - 1);
                    let list = (0..n).map(|_| if rng.chance(3, 4) { self.lit(rng, t) } else { self.expr(rng, t, d - 1) }).collect();
                    Expr::In(rng.chance(1, 2), b(x), list)
                }
                13 => {
                    let t = if rng.chance(2, 3) { Ty::Int(64) } else { Ty::Str };
                    Expr::Between(rng.chance(1, 3), b(self.expr(rng, t, d - 1)), b(self.expr(rng, t, 0)), b(self.expr(rng, t, 0)))
                }
                14 if self.allow_like => {
                    let pats = ["a%", "%b", "a_", "%", "_", "", "a\\%", "%a%", "a%c", "A%", "_b%"];
                    let pat = if rng.chance(4, 5) { Expr::Lit(Val::Str(rng.pick(&pats).replace('\\', "")), Ty::Str, false) } else { self.expr(rng, Ty::Str, 0) };
                    Expr::Like { neg: rng.chance(1, 3), ci: rng.chance(1, 4), e: b(self.expr(rng, Ty::Str, d - 1)), pat: b(pat), esc: None }
                }
                _ => self.leaf(rng, ty),
            },
            Ty::Str => match rng.below(6) {
                0 | 1 => Expr::Bin(Op::Concat, b(self.expr(rng, Ty::Str, d - 1)), b(self.expr(rng, Ty::Str, d - 1))),
                2 => Expr::Cast { ty: Ty::Str, try_: false, implicit: false, e: b(self.expr(rng, Ty::Int(64), d - 1)) },
                _ => self.leaf(rng, ty),
            },
        }
    }

    fn any_ty(&self, rng: &mut Rng) -> Ty {
        // prefer types that occur in the scope
        if !self.cols.is_empty() && rng.chance(3, 4) {
            self.cols[rng.below(self.cols.len() as u64) as usize].ty
        } else {
            gen_ty(rng)
        }
    }

    /// two expressions that the engine compares without changing their value: same type, or two
    /// integer widths (the engine widens the narrower side; the model compares mathematically)
    pub fn comparable_pair(&self, rng: &mut Rng, t: Ty, d: u32) -> (Expr, Expr) {
        if let Ty::Int(w) = t {
            if rng.chance(1, 4) {
                let w2 = *rng.pick(&[8u8, 16, 32, 64]);
                if w2 != w {
                    let l = self.expr(rng, t, d);
                    let r = self.expr(rng, Ty::Int(w2), d);
                    // make the widening explicit in the model, implicit in SQL
                    let wide = Ty::Int(w.max(w2));
                    let wrap = |e: Expr, from: u8| if from < w.max(w2) { Expr::Cast { ty: wide, try_: false, implicit: true, e: Box::new(e) } } else { e };
                    return (wrap(l, w), wrap(r, w2));
                }
            }
        }
        (self.expr(rng, t, d), self.expr(rng, t, d))
    }
}

// ------------------------------------------------------------------------------------ engine helpers

pub fn schema_of(cols: &[(String, Ty)]) -> SchemaRef {
    Arc::new(Schema::new(cols.iter().map(|(n, t)| Field::new(n, t.arrow(), true)).collect::<Vec<_>>()))
}

pub fn column_array(ty: Ty, vals: impl Iterator<Item = Val>) -> ArrayRef {
    match ty {
        Ty::Int(8) => Arc::new(vals.map(|v| if let Val::Int(_, n) = v { Some(n as i8) } else { None }).collect::<Int8Array>()),
        Ty::Int(16) => Arc::new(vals.map(|v| if let Val::Int(_, n) = v { Some(n as i16) } else { None }).collect::<Int16Array>()),
        Ty::Int(32) => Arc::new(vals.map(|v| if let Val::Int(_, n) = v { Some(n as i32) } else { None }).collect::<Int32Array>()),
        Ty::Int(_) => Arc::new(vals.map(|v| if let Val::Int(_, n) = v { Some(n) } else { None }).collect::<Int64Array>()),
        Ty::Bool => Arc::new(vals.map(|v| if let Val::Bool(b) = v { Some(b) } else { None }).collect::<BooleanArray>()),
        Ty::Str => Arc::new(vals.map(|v| if let Val::Str(s) = v { Some(s) } else { None }).collect::<StringArray>()),
    }
}

pub fn batch_of(cols: &[(String, Ty)], rows: &[Vec<Val>]) -> RecordBatch {
    let schema = schema_of(cols);
    if cols.is_empty() {
        return RecordBatch::try_new_with_options(schema, vec![], &RecordBatchOptions::new().with_row_count(Some(rows.len()))).unwrap();
    }
    let arrays: Vec<ArrayRef> = cols.iter().enumerate().map(|(c, (_, ty))| column_array(*ty, rows.iter().map(|r| r[c].clone()))).collect();
    RecordBatch::try_new(schema, arrays).unwrap()
}

/// split the rows into 1..=3 partitions of 1..=3 batches each (deterministic from `rng`)
pub fn partitions_of(rng: &mut Rng, t: &TableDef) -> Vec<Vec<RecordBatch>> {
    let np = 1 + rng.below(3) as usize;
    let mut parts: Vec<Vec<Vec<Val>>> = vec![vec![]; np];
    // contiguous split keeps the table's row order when read partition after partition
    let n = t.rows.len();
    let mut cuts: Vec<usize> = (0..np - 1).map(|_| rng.below(n as u64 + 1) as usize).collect();
    cuts.sort();
    let mut start = 0;
    for (p, part) in parts.iter_mut().enumerate() {
        let end = if p + 1 == np { n } else { cuts[p] };
        *part = t.rows[start..end].to_vec();
        start = end;
    }
    parts
        .into_iter()
        .map(|rows| {
            let nb = 1 + rng.below(3) as usize;
            let mut out = vec![];
            let per = rows.len().div_ceil(nb).max(1);
            for chunk in rows.chunks(per) {
                out.push(batch_of(&t.cols, chunk));
            }
            if out.is_empty() {
                out.push(batch_of(&t.cols, &[]));
            }
            out
        })
        .collect()
}

/// one cell of an engine result as a model value; `None` = a type outside the model
pub fn cell(a: &dyn Array, i: usize) -> Option<Val> {
    if a.is_null(i) {
        return Some(Val::Null);
    }
    Some(match a.data_type() {
        DataType::Int8 => Val::Int(8, a.as_primitive::<arrow::datatypes::Int8Type>().value(i) as i64),
        DataType::Int16 => Val::Int(16, a.as_primitive::<arrow::datatypes::Int16Type>().value(i) as i64),
        DataType::Int32 => Val::Int(32, a.as_primitive::<arrow::datatypes::Int32Type>().value(i) as i64),
        DataType::Int64 => Val::Int(64, a.as_primitive::<arrow::datatypes::Int64Type>().value(i)),
        DataType::Boolean => Val::Bool(a.as_boolean().value(i)),
        DataType::Utf8 => Val::Str(a.as_string::<i32>().value(i).to_string()),
        DataType::LargeUtf8 => Val::Str(a.as_string::<i64>().value(i).to_string()),
        DataType::Utf8View => Val::Str(a.as_string_view().value(i).to_string()),
        DataType::Dictionary(_, _) => {
            let d = a.as_any_dictionary();
            let k = d.normalized_keys()[i];
            return cell(d.values().as_ref(), k);
        }
        _ => return None,
    })
}

pub fn rows_of_batches(batches: &[RecordBatch]) -> Result<Vec<Vec<Val>>, String> {
    let mut out = vec![];
    for b in batches {
        for i in 0..b.num_rows() {
            let mut row = Vec::with_capacity(b.num_columns());
            for c in b.columns() {
                match cell(c.as_ref(), i) {
                    Some(v) => row.push(v),
                    None => return Err(format!("unmodelled result type {:?}", c.data_type())),
                }
            }
            out.push(row);
        }
    }
    Ok(out)
}

/// engine error text → error class of the model
pub fn err_class(msg: &str) -> &'static str {
    let m = msg.to_ascii_lowercase();
    if m.contains("divide by zero") || m.contains("division by zero") {
        "div0"
    } else if m.contains("overflow") {
        "overflow"
    } else if m.contains("cast error") || m.contains("cannot cast") || m.contains("can't cast") || m.contains("cast value") {
        "cast"
    } else if m.contains("more than one row") {
        "card"
    } else if m.contains("not implemented") || m.contains("not supported") || m.contains("unsupported") || m.contains("this feature is not implemented") {
        "notimpl"
    } else if m.contains("error during planning") || m.contains("schema error") || m.contains("sql error") || m.contains("internal error") {
        "plan"
    } else {
        "other"
    }
}

// ------------------------------------------------------------------------------------ query generation

pub struct QueryGen<'a> {
    pub db: &'a [TableDef],
    /// percent of error-prone nodes (unguarded `/ %`, narrowing / string casts) in positions where
    /// the engine and the reference evaluate the same set of rows
    pub err_pct: u64,
    pub allow_sub: bool,
    n_alias: usize,
}

impl<'a> QueryGen<'a> {
    pub fn new(db: &'a [TableDef], err_pct: u64) -> Self {
        QueryGen { db, err_pct, allow_sub: true, n_alias: 0 }
    }
    fn alias(&mut self) -> String {
        self.n_alias += 1;
        format!("x{}", self.n_alias)
    }
    fn table(&mut self, rng: &mut Rng) -> From {
        let db = self.db;
        let t = &db[rng.below(db.len() as u64) as usize];
        let alias = self.alias();
        From::Table { name: t.name.clone(), cols: t.cols.clone(), alias }
    }

    fn join_on(&self, rng: &mut Rng, l: &[ColInfo], r: &[ColInfo], d: u32) -> Expr {
        let mut cols = l.to_vec();
        cols.extend(r.iter().cloned());
        let g = ExprGen { cols: &cols, outer: &[], err_pct: 0, allow_like: true };
        // an equality between comparable columns of the two sides
        let mut pairs = vec![];
        for (i, a) in l.iter().enumerate() {
            for (j, b) in r.iter().enumerate() {
                if a.ty == b.ty {
                    pairs.push((i, l.len() + j));
                }
            }
        }
        let eq = |rng: &mut Rng| {
            let (i, j) = *rng.pick(&pairs);
            Expr::bin(Op::Eq, Expr::Col(i), Expr::Col(j))
        };
        match rng.below(10) {
            0..=4 if !pairs.is_empty() => eq(rng),
            5 | 6 if !pairs.is_empty() => Expr::and(eq(rng), g.expr(rng, Ty::Bool, d)),
            7 if !pairs.is_empty() => {
                let (i, j) = *rng.pick(&pairs);
                Expr::bin(*rng.pick(&[Op::Lt, Op::Le, Op::Ne, Op::NotDistinct]), Expr::Col(i), Expr::Col(j))
            }
            8 => Expr::Lit(Val::Bool(true), Ty::Bool, false),
            _ => g.expr(rng, Ty::Bool, d),
        }
    }

    pub fn gen_from(&mut self, rng: &mut Rng, d: u32) -> From {
        match rng.below(20) {
            0..=8 => self.table(rng),
            9..=16 => {
                let l = if rng.chance(1, 5) && d > 0 { self.gen_from(rng, d - 1) } else { self.table(rng) };
                let r = if rng.chance(1, 8) && d > 0 { self.derived(rng, d - 1) } else { self.table(rng) };
                let jt = *rng.pick(&Jt::ALL);
                let on = self.join_on(rng, &l.scope(), &r.scope(), 1);
                From::Join { jt, l: Box::new(l), r: Box::new(r), on }
            }
            _ if d > 0 => self.derived(rng, d - 1),
            _ => self.table(rng),
        }
    }
    fn derived(&mut self, rng: &mut Rng, d: u32) -> From {
        let s = self.gen_select(rng, &[], None, d, false);
        From::Derived { q: Box::new(Query::select(s)), alias: self.alias() }
    }

    /// a sub-query expression usable as a predicate over `outer`
    fn gen_sub_pred(&mut self, rng: &mut Rng, outer: &[ColInfo], d: u32) -> Expr {
        let inner_from = self.table(rng);
        let isc = inner_from.scope();
        let g = ExprGen { cols: &isc, outer, err_pct: 0, allow_like: false };
        // correlation predicate (or none)
        let mut pairs = vec![];
        for (i, a) in isc.iter().enumerate() {
            for (j, b) in outer.iter().enumerate() {
                if a.ty == b.ty {
                    pairs.push((i, j));
                }
            }
        }
        let corr = if !pairs.is_empty() && rng.chance(3, 4) {
            let (i, j) = *rng.pick(&pairs);
            let op = if rng.chance(4, 5) { Op::Eq } else { *rng.pick(&[Op::Lt, Op::Ne, Op::Ge]) };
            Some(Expr::bin(op, Expr::Col(i), Expr::Outer(j)))
        } else {
            None
        };
        let local = if rng.chance(1, 2) { Some(ExprGen { cols: &isc, outer: &[], err_pct: 0, allow_like: false }.expr(rng, Ty::Bool, d.min(1))) } else { None };
        let where_ = match (corr, local) {
            (Some(a), Some(b)) => Some(Expr::and(a, b)),
            (Some(a), None) | (None, Some(a)) => Some(a),
            _ => None,
        };
        let outer_gen = ExprGen { cols: outer, outer: &[], err_pct: 0, allow_like: false };
        match rng.below(10) {
            0..=2 => {
                let sel = Select { from: inner_from, where_, group: None, proj: vec![(Expr::i64(1), Ty::Int(64))], distinct: false };
                Expr::Sub { kind: SubKind::Exists, neg: rng.chance(1, 2), x: None, q: Box::new(Query::select(sel)) }
            }
            3..=5 => {
                // x [NOT] IN (SELECT col …)
                let (ci, ty) = {
                    let i = rng.below(isc.len() as u64) as usize;
                    (i, isc[i].ty)
                };
                let x = outer_gen.expr(rng, ty, 1);
                let sel = Select { from: inner_from, where_, group: None, proj: vec![(Expr::Col(ci), ty)], distinct: false };
                Expr::Sub { kind: SubKind::In, neg: rng.chance(1, 2), x: Some(Box::new(x)), q: Box::new(Query::select(sel)) }
            }
            6 | 7 => {
                // x op (SELECT agg(col) …)   — a global aggregate always yields exactly one row
                let int_cols: Vec<usize> = isc.iter().enumerate().filter(|(_, c)| c.ty == Ty::Int(64)).map(|(i, _)| i).collect();
                let ci = *rng.pick(&int_cols);
                let f = *rng.pick(&[AggFn::Count, AggFn::CountStar, AggFn::Sum, AggFn::Min, AggFn::Max]);
                let agg = AggCall { f, distinct: false, arg: Expr::Col(ci), filter: None, ty: Ty::Int(64) };
                let sel = Select { from: inner_from, where_, group: Some(Group { keys: vec![], aggs: vec![agg], having: None }), proj: vec![(Expr::Col(0), Ty::Int(64))], distinct: false };
                let sub = Expr::Sub { kind: SubKind::Scalar, neg: false, x: None, q: Box::new(Query::select(sel)) };
                let x = outer_gen.expr(rng, Ty::Int(64), 1);
                Expr::bin(*rng.pick(&Op::CMP), x, sub)
            }
            _ => {
                let int_cols: Vec<usize> = isc.iter().enumerate().filter(|(_, c)| c.ty == Ty::Int(64)).map(|(i, _)| i).collect();
                let ci = *rng.pick(&int_cols);
                let x = outer_gen.expr(rng, Ty::Int(64), 1);
                let sel = Select { from: inner_from, where_, group: None, proj: vec![(Expr::Col(ci), Ty::Int(64))], distinct: false };
                Expr::Sub { kind: SubKind::Quant(*rng.pick(&Op::CMP), rng.chance(1, 2)), neg: false, x: Some(Box::new(x)), q: Box::new(Query::select(sel)) }
            }
        }
    }

    pub fn gen_select(&mut self, rng: &mut Rng, outer: &[ColInfo], want: Option<&[Ty]>, d: u32, allow_sub: bool) -> Select {
        let from = self.gen_from(rng, d);
        let sc = from.scope();
        let joined = from.n_joins() > 0;
        // WHERE: errors only where engine and reference look at the same rows (single table, no sub-query)
        let mut has_sub = false;
        let where_ = if rng.chance(3, 5) {
            let use_sub = allow_sub && self.allow_sub && rng.chance(2, 5);
            let perr = if joined || use_sub { 0 } else { self.err_pct / 2 };
            let g = ExprGen { cols: &sc, outer, err_pct: perr, allow_like: true };
            let p = g.expr(rng, Ty::Bool, d.min(2));
            if use_sub {
                has_sub = true;
                let s = self.gen_sub_pred(rng, &sc, d);
                Some(match rng.below(6) {
                    0 | 1 => s,
                    2 | 3 => Expr::and(p, s),
                    4 => Expr::bin(Op::Or, p, s),
                    _ => Expr::Not(Box::new(s)),
                })
            } else {
                Some(p)
            }
        } else {
            None
        };
        let _ = has_sub;
        let grouped = want.is_none() && rng.chance(2, 5);
        if grouped {
            let g0 = ExprGen { cols: &sc, outer, err_pct: 0, allow_like: false };
            let nk = rng.below(3) as usize;
            let mut keys = vec![];
            for _ in 0..nk {
                let i = rng.below(sc.len() as u64) as usize;
                let ty = sc[i].ty;
                let k = match (rng.below(6), ty) {
                    (0, Ty::Int(w)) => (Expr::bin(Op::Mod, Expr::Col(i), Expr::Lit(Val::Int(w, 3), ty, false)), ty),
                    (1, _) => (Expr::Is(IsKind::Null, false, Box::new(Expr::Col(i))), Ty::Bool),
                    (2, Ty::Int(w)) => (Expr::Coalesce(vec![Expr::Col(i), Expr::Lit(Val::Int(w, 0), ty, false)]), ty),
                    _ => (Expr::Col(i), ty),
                };
                if !keys.contains(&k) {
                    keys.push(k);
                }
            }
            let na = 1 + rng.below(3) as usize;
            let mut aggs = vec![];
            for _ in 0..na {
                let f = *rng.pick(&[AggFn::CountStar, AggFn::Count, AggFn::Sum, AggFn::Sum, AggFn::Min, AggFn::Max]);
                let (arg, aty) = match f {
                    AggFn::Sum => {
                        let w = *rng.pick(&[64u8, 64, 32, 8]);
                        (g0.expr(rng, Ty::Int(w), 1), Ty::Int(w))
                    }
                    _ => {
                        let t = g0.any_ty_pub(rng);
                        (g0.expr(rng, t, 1), t)
                    }
                };
                let ty = match f {
                    AggFn::CountStar | AggFn::Count | AggFn::Sum => Ty::Int(64),
                    _ => aty,
                };
                let filter = if rng.chance(1, 5) { Some(g0.expr(rng, Ty::Bool, 1)) } else { None };
                aggs.push(AggCall { f, distinct: f != AggFn::CountStar && rng.chance(1, 4), arg, filter, ty });
            }
            let group = Group { keys, aggs, having: None };
            let tmp = Select { from, where_, group: Some(group), proj: vec![], distinct: false };
            let from_sc = Scope { cols: sc.clone(), outer: outer.to_vec() };
            let post = tmp.post_scope(&from_sc);
            let pg = ExprGen { cols: &post.cols, outer: &[], err_pct: 0, allow_like: false };
            let mut proj = vec![];
            for (i, c) in post.cols.iter().enumerate() {
                if rng.chance(4, 5) {
                    proj.push((Expr::Col(i), c.ty));
                }
            }
            if rng.chance(1, 3) || proj.is_empty() {
                let t = pg.any_ty_pub(rng);
                proj.push((pg.expr(rng, t, 1), t));
            }
            let having = if rng.chance(1, 3) { Some(pg.expr(rng, Ty::Bool, 1)) } else { None };
            let Select { from, where_, group, .. } = tmp;
            let mut group = group.unwrap();
            group.having = having;
            return Select { from, where_, group: Some(group), proj, distinct: rng.chance(1, 8) };
        }
        let perr = self.err_pct;
        let g = ExprGen { cols: &sc, outer, err_pct: perr, allow_like: true };
        let proj: Vec<(Expr, Ty)> = match want {
            Some(tys) => tys.iter().map(|t| (g.expr(rng, *t, d.min(2)), *t)).collect(),
            None => {
                let n = 1 + rng.below(3) as usize;
                (0..n)
                    .map(|_| {
                        let t = g.any_ty_pub(rng);
                        (g.expr(rng, t, d.min(2)), t)
                    })
                    .collect()
            }
        };
        Select { from, where_, group: None, proj, distinct: rng.chance(1, 5) }
    }

    pub fn gen_query(&mut self, rng: &mut Rng, d: u32) -> Query {
        let body = if rng.chance(1, 5) {
            let n = 1 + rng.below(2) as usize;
            let tys: Vec<Ty> = (0..n).map(|_| *rng.pick(&[Ty::Int(64), Ty::Int(64), Ty::Int(32), Ty::Bool, Ty::Str])).collect();
            let save = self.err_pct;
            self.err_pct = 0;
            let l = self.gen_select(rng, &[], Some(&tys), d.saturating_sub(1), true);
            let r = self.gen_select(rng, &[], Some(&tys), d.saturating_sub(1), true);
            self.err_pct = save;
            let kind = *rng.pick(&[SetKind::Union, SetKind::Intersect, SetKind::Except]);
            Body::SetOp { kind, all: rng.chance(1, 2), l: Box::new(Query::select(l)), r: Box::new(Query::select(r)) }
        } else {
            Body::Select(Box::new(self.gen_select(rng, &[], None, d, true)))
        };
        let mut q = Query { body, order: vec![], limit: None };
        let n = q.out_types().len();
        match rng.below(4) {
            0 => {
                // total order (+ LIMIT/OFFSET)
                let mut cols: Vec<usize> = (0..n).collect();
                for i in (1..n).rev() {
                    cols.swap(i, rng.below(i as u64 + 1) as usize);
                }
                q.order = cols.into_iter().map(|c| OrderItem { col: c, desc: rng.chance(1, 2), nulls_first: *rng.pick(&[None, None, Some(true), Some(false)]) }).collect();
                if rng.chance(2, 3) {
                    q.limit = Some((*rng.pick(&[0u64, 0, 1, 2, 5]), if rng.chance(4, 5) { Some(*rng.pick(&[0u64, 1, 2, 3, 5, 100])) } else { None }));
                    if q.limit == Some((0, None)) {
                        q.limit = None;
                    }
                }
            }
            1 => {
                let c = rng.below(n as u64) as usize;
                q.order = vec![OrderItem { col: c, desc: rng.chance(1, 2), nulls_first: *rng.pick(&[None, None, Some(true), Some(false)]) }];
            }
            _ => {}
        }
        q
    }
}

impl<'a> ExprGen<'a> {
    pub fn any_ty_pub(&self, rng: &mut Rng) -> Ty {
        if !self.cols.is_empty() && rng.chance(3, 4) { self.cols[rng.below(self.cols.len() as u64) as usize].ty } else { gen_ty(rng) }
    }
}

// ------------------------------------------------------------------------------------ visitors

impl Expr {
    /// bottom-up rewrite of every sub-expression (sub-queries included)
    pub fn map(&self, f: &mut dyn FnMut(Expr) -> Expr) -> Expr {
        let b = |e: &Expr, f: &mut dyn FnMut(Expr) -> Expr| Box::new(e.map(f));
        let e = match self {
            Expr::Bin(op, a, c) => Expr::Bin(*op, b(a, f), b(c, f)),
            Expr::Not(a) => Expr::Not(b(a, f)),
            Expr::Neg(a) => Expr::Neg(b(a, f)),
            Expr::Is(k, n, a) => Expr::Is(*k, *n, b(a, f)),
            Expr::In(n, a, l) => Expr::In(*n, b(a, f), l.iter().map(|x| x.map(f)).collect()),
            Expr::Between(n, a, lo, hi) => Expr::Between(*n, b(a, f), b(lo, f), b(hi, f)),
            Expr::Case(op, whens, els) => Expr::Case(op.as_ref().map(|o| b(o, f)), whens.iter().map(|(w, t)| (w.map(f), t.map(f))).collect(), els.as_ref().map(|o| b(o, f))),
            Expr::Coalesce(args) => Expr::Coalesce(args.iter().map(|x| x.map(f)).collect()),
            Expr::Nullif(a, c) => Expr::Nullif(b(a, f), b(c, f)),
            Expr::Cast { ty, try_, implicit, e } => Expr::Cast { ty: *ty, try_: *try_, implicit: *implicit, e: b(e, f) },
            Expr::Like { neg, ci, e, pat, esc } => Expr::Like { neg: *neg, ci: *ci, e: b(e, f), pat: b(pat, f), esc: *esc },
            Expr::Sub { kind, neg, x, q } => Expr::Sub { kind: kind.clone(), neg: *neg, x: x.as_ref().map(|x| b(x, f)), q: Box::new(q.map_exprs(f)) },
            e => e.clone(),
        };
        f(e)
    }
}

impl From {
    pub fn map_exprs(&self, f: &mut dyn FnMut(Expr) -> Expr) -> From {
        match self {
            From::Table { .. } => self.clone(),
            From::Join { jt, l, r, on } => From::Join { jt: *jt, l: Box::new(l.map_exprs(f)), r: Box::new(r.map_exprs(f)), on: on.map(f) },
            From::Derived { q, alias } => From::Derived { q: Box::new(q.map_exprs(f)), alias: alias.clone() },
        }
    }
}

impl Query {
    /// rewrite every expression of the query bottom-up (e.g. literals → placeholders for C41);
    /// `f` must preserve the type of the expression it is given
    pub fn map_exprs(&self, f: &mut dyn FnMut(Expr) -> Expr) -> Query {
        let body = match &self.body {
            Body::Select(s) => Body::Select(Box::new(Select {
                from: s.from.map_exprs(f),
                where_: s.where_.as_ref().map(|e| e.map(f)),
                group: s.group.as_ref().map(|g| Group {
                    keys: g.keys.iter().map(|(k, t)| (k.map(f), *t)).collect(),
                    aggs: g.aggs.iter().map(|a| AggCall { f: a.f, distinct: a.distinct, arg: a.arg.map(f), filter: a.filter.as_ref().map(|e| e.map(f)), ty: a.ty }).collect(),
                    having: g.having.as_ref().map(|e| e.map(f)),
                }),
                proj: s.proj.iter().map(|(e, t)| (e.map(f), *t)).collect(),
                distinct: s.distinct,
            })),
            Body::SetOp { kind, all, l, r } => Body::SetOp { kind: *kind, all: *all, l: Box::new(l.map_exprs(f)), r: Box::new(r.map_exprs(f)) },
        };
        Query { body, order: self.order.clone(), limit: self.limit }
    }
}

// ------------------------------------------------------------------------------------ datafusion_expr bridge

use datafusion_common::{DFSchema, ScalarValue};
use datafusion_expr::{BinaryExpr as DfBinary, Expr as DfExpr, Operator};

impl Val {
    pub fn scalar(&self, ty: Ty) -> ScalarValue {
        match (self, ty) {
            (Val::Null, Ty::Int(8)) => ScalarValue::Int8(None),
            (Val::Null, Ty::Int(16)) => ScalarValue::Int16(None),
            (Val::Null, Ty::Int(32)) => ScalarValue::Int32(None),
            (Val::Null, Ty::Int(_)) => ScalarValue::Int64(None),
            (Val::Null, Ty::Bool) => ScalarValue::Boolean(None),
            (Val::Null, Ty::Str) => ScalarValue::Utf8(None),
            (Val::Int(8, n), _) => ScalarValue::Int8(Some(*n as i8)),
            (Val::Int(16, n), _) => ScalarValue::Int16(Some(*n as i16)),
            (Val::Int(32, n), _) => ScalarValue::Int32(Some(*n as i32)),
            (Val::Int(_, n), _) => ScalarValue::Int64(Some(*n)),
            (Val::Bool(b), _) => ScalarValue::Boolean(Some(*b)),
            (Val::Str(s), _) => ScalarValue::Utf8(Some(s.clone())),
        }
    }
}

pub fn scalar_val(s: &ScalarValue) -> Option<Val> {
    Some(match s {
        ScalarValue::Null => Val::Null,
        ScalarValue::Int8(v) => v.map(|n| Val::Int(8, n as i64)).unwrap_or(Val::Null),
        ScalarValue::Int16(v) => v.map(|n| Val::Int(16, n as i64)).unwrap_or(Val::Null),
        ScalarValue::Int32(v) => v.map(|n| Val::Int(32, n as i64)).unwrap_or(Val::Null),
        ScalarValue::Int64(v) => v.map(|n| Val::Int(64, n)).unwrap_or(Val::Null),
        ScalarValue::Boolean(v) => v.map(Val::Bool).unwrap_or(Val::Null),
        ScalarValue::Utf8(v) | ScalarValue::LargeUtf8(v) | ScalarValue::Utf8View(v) => v.clone().map(Val::Str).unwrap_or(Val::Null),
        _ => return None,
    })
}

impl Op {
    pub fn df(&self) -> Operator {
        match self {
            Op::Add => Operator::Plus,
            Op::Sub => Operator::Minus,
            Op::Mul => Operator::Multiply,
            Op::Div => Operator::Divide,
            Op::Mod => Operator::Modulo,
            Op::Eq => Operator::Eq,
            Op::Ne => Operator::NotEq,
            Op::Lt => Operator::Lt,
            Op::Le => Operator::LtEq,
            Op::Gt => Operator::Gt,
            Op::Ge => Operator::GtEq,
            Op::And => Operator::And,
            Op::Or => Operator::Or,
            Op::Distinct => Operator::IsDistinctFrom,
            Op::NotDistinct => Operator::IsNotDistinctFrom,
            Op::Concat => Operator::StringConcat,
        }
    }
    pub fn of_df(op: &Operator) -> Option<Op> {
        Some(match op {
            Operator::Plus => Op::Add,
            Operator::Minus => Op::Sub,
            Operator::Multiply => Op::Mul,
            Operator::Divide => Op::Div,
            Operator::Modulo => Op::Mod,
            Operator::Eq => Op::Eq,
            Operator::NotEq => Op::Ne,
            Operator::Lt => Op::Lt,
            Operator::LtEq => Op::Le,
            Operator::Gt => Op::Gt,
            Operator::GtEq => Op::Ge,
            Operator::And => Op::And,
            Operator::Or => Op::Or,
            Operator::IsDistinctFrom => Op::Distinct,
            Operator::IsNotDistinctFrom => Op::NotDistinct,
            Operator::StringConcat => Op::Concat,
            _ => return None,
        })
    }
}

impl Expr {
    /// the expression as a `datafusion_expr::Expr` over columns named as in `cols`
    /// (implicit casts are written explicitly: no analyzer runs on this path)
    pub fn df(&self, cols: &[(String, Ty)]) -> DfExpr {
        use datafusion_expr::expr as dx;
        let b = |e: &Expr| Box::new(e.df(cols));
        match self {
            Expr::Col(i) => datafusion_expr::col(cols[*i].0.as_str()),
            Expr::Outer(_) | Expr::Sub { .. } => panic!("no datafusion_expr form"),
            Expr::Lit(v, ty, _) => DfExpr::Literal(v.scalar(*ty), None),
            Expr::Ph(i, _) => datafusion_expr::placeholder(format!("${}", i + 1)),
            Expr::Bin(op, a, c) => DfExpr::BinaryExpr(DfBinary { left: b(a), op: op.df(), right: b(c) }),
            Expr::Not(a) => DfExpr::Not(b(a)),
            Expr::Neg(a) => DfExpr::Negative(b(a)),
            Expr::Is(k, n, a) => match (k, n) {
                (IsKind::Null, false) => DfExpr::IsNull(b(a)),
                (IsKind::Null, true) => DfExpr::IsNotNull(b(a)),
                (IsKind::True, false) => DfExpr::IsTrue(b(a)),
                (IsKind::True, true) => DfExpr::IsNotTrue(b(a)),
                (IsKind::False, false) => DfExpr::IsFalse(b(a)),
                (IsKind::False, true) => DfExpr::IsNotFalse(b(a)),
                (IsKind::Unknown, false) => DfExpr::IsUnknown(b(a)),
                (IsKind::Unknown, true) => DfExpr::IsNotUnknown(b(a)),
            },
            Expr::In(n, a, l) => DfExpr::InList(dx::InList { expr: b(a), list: l.iter().map(|e| e.df(cols)).collect(), negated: *n }),
            Expr::Between(n, a, lo, hi) => DfExpr::Between(dx::Between { expr: b(a), negated: *n, low: b(lo), high: b(hi) }),
            Expr::Case(op, whens, els) => DfExpr::Case(dx::Case {
                expr: op.as_ref().map(|o| b(o)),
                when_then_expr: whens.iter().map(|(w, t)| (b(w), b(t))).collect(),
                else_expr: els.as_ref().map(|o| b(o)),
            }),
            Expr::Coalesce(args) => datafusion_functions::core::expr_fn::coalesce(args.iter().map(|e| e.df(cols)).collect()),
            Expr::Nullif(a, c) => datafusion_functions::core::expr_fn::nullif(a.df(cols), c.df(cols)),
            Expr::Cast { ty, try_, e, .. } => {
                if *try_ {
                    datafusion_expr::try_cast(e.df(cols), ty.arrow())
                } else {
                    datafusion_expr::cast(e.df(cols), ty.arrow())
                }
            }
            Expr::Like { neg, ci, e, pat, esc } => DfExpr::Like(dx::Like { negated: *neg, expr: b(e), pattern: b(pat), escape_char: *esc, case_insensitive: *ci }),
        }
    }
}

pub fn ty_of_arrow(dt: &DataType) -> Option<Ty> {
    Some(match dt {
        DataType::Int8 => Ty::Int(8),
        DataType::Int16 => Ty::Int(16),
        DataType::Int32 => Ty::Int(32),
        DataType::Int64 => Ty::Int(64),
        DataType::Boolean => Ty::Bool,
        DataType::Utf8 | DataType::LargeUtf8 | DataType::Utf8View => Ty::Str,
        _ => return None,
    })
}

/// export a real `datafusion_expr::Expr` as a model s-expression; `Err(what)` when it contains a
/// construct outside the model
pub fn export_df(e: &DfExpr, schema: &DFSchema) -> Result<String, String> {
    let r = |x: &DfExpr| export_df(x, schema);
    let is = |k: &str, n: bool, x: &DfExpr| -> Result<String, String> { Ok(format!("(is {k} {} {})", b2a(n), export_df(x, schema)?)) };
    Ok(match e {
        DfExpr::Column(c) => {
            let i = schema.index_of_column(c).map_err(|e| e.to_string())?;
            format!("(col {i})")
        }
        DfExpr::Literal(s, _) => match scalar_val(s) {
            Some(v) => format!("(lit {})", v.sexp()),
            None => return Err(format!("literal {s:?}")),
        },
        DfExpr::Alias(a) => r(&a.expr)?,
        DfExpr::BinaryExpr(DfBinary { left, op, right }) => match Op::of_df(op) {
            Some(o) => format!("(bin {} {} {})", o.sexp(), r(left)?, r(right)?),
            None => return Err(format!("operator {op}")),
        },
        DfExpr::Not(a) => format!("(not {})", r(a)?),
        DfExpr::Negative(a) => format!("(neg {})", r(a)?),
        DfExpr::IsNull(a) => is("null", false, a)?,
        DfExpr::IsNotNull(a) => is("null", true, a)?,
        DfExpr::IsTrue(a) => is("true", false, a)?,
        DfExpr::IsNotTrue(a) => is("true", true, a)?,
        DfExpr::IsFalse(a) => is("false", false, a)?,
        DfExpr::IsNotFalse(a) => is("false", true, a)?,
        DfExpr::IsUnknown(a) => is("unknown", false, a)?,
        DfExpr::IsNotUnknown(a) => is("unknown", true, a)?,
        DfExpr::InList(l) => {
            let mut s = format!("(in {} {}", b2a(l.negated), r(&l.expr)?);
            for x in &l.list {
                s.push(' ');
                s.push_str(&r(x)?);
            }
            s.push(')');
            s
        }
        DfExpr::Between(bt) => format!("(between {} {} {} {})", b2a(bt.negated), r(&bt.expr)?, r(&bt.low)?, r(&bt.high)?),
        DfExpr::Case(c) => {
            let mut s = String::from("(case (");
            if let Some(o) = &c.expr {
                s.push_str(&r(o)?);
            }
            s.push_str(") (");
            for (i, (w, t)) in c.when_then_expr.iter().enumerate() {
                if i > 0 {
                    s.push(' ');
                }
                let _ = write!(s, "({} {})", r(w)?, r(t)?);
            }
            s.push_str(") (");
            if let Some(o) = &c.else_expr {
                s.push_str(&r(o)?);
            }
            s.push_str("))");
            s
        }
        DfExpr::Cast(c) => match ty_of_arrow(c.field.data_type()) {
            Some(t) => format!("(cast {} f {})", t.sexp(), r(&c.expr)?),
            None => return Err(format!("cast to {}", c.field.data_type())),
        },
        DfExpr::TryCast(c) => match ty_of_arrow(c.field.data_type()) {
            Some(t) => format!("(cast {} t {})", t.sexp(), r(&c.expr)?),
            None => return Err(format!("try_cast to {}", c.field.data_type())),
        },
        DfExpr::Like(l) => format!(
            "(like {} {} {} {} ({}))",
            b2a(l.negated),
            b2a(l.case_insensitive),
            r(&l.expr)?,
            r(&l.pattern)?,
            l.escape_char.map(|c| (c as u32).to_string()).unwrap_or_default()
        ),
        DfExpr::ScalarFunction(f) => match f.name() {
            "coalesce" => {
                let mut s = String::from("(coalesce");
                for a in &f.args {
                    s.push(' ');
                    s.push_str(&r(a)?);
                }
                s.push(')');
                s
            }
            "nullif" if f.args.len() == 2 => format!("(nullif {} {})", r(&f.args[0])?, r(&f.args[1])?),
            n => return Err(format!("function {n}")),
        },
        other => return Err(format!("node {}", other.variant_name())),
    })
}

/// all rows over the given per-column domains (cartesian product)
pub fn all_rows(domains: &[Vec<Val>]) -> Vec<Vec<Val>> {
    let mut out: Vec<Vec<Val>> = vec![vec![]];
    for d in domains {
        let mut next = Vec::with_capacity(out.len() * d.len());
        for r in &out {
            for v in d {
                let mut r2 = r.clone();
                r2.push(v.clone());
                next.push(r2);
            }
        }
        out = next;
    }
    out
}

/// the small exhaustive domain of a type (boundaries, NULL, duplicates of interest)
pub fn domain_of(ty: Ty) -> Vec<Val> {
    match ty {
        Ty::Int(w) => vec![Val::Null, Val::Int(w, int_min(w)), Val::Int(w, -1), Val::Int(w, 0), Val::Int(w, 1), Val::Int(w, 2), Val::Int(w, int_max(w))],
        Ty::Bool => vec![Val::Null, Val::Bool(false), Val::Bool(true)],
        Ty::Str => vec![Val::Null, Val::Str("".into()), Val::Str("a".into()), Val::Str("ab".into()), Val::Str("12".into()), Val::Str("A%".into())],
    }
}

/// values of an array as model values
pub fn vals_of_array(a: &dyn Array) -> Result<Vec<Val>, String> {
    (0..a.len()).map(|i| cell(a, i).ok_or_else(|| format!("unmodelled type {:?}", a.data_type()))).collect()
}
