//! C04 — expression simplification never changes an expression's value.
//!
//! Typed expression trees (random + shapes that the simplifier's rules target) over ≤ 3 typed
//! columns, some declared NOT NULL (so that the nullability-guarded rules fire); the real
//! `ExprSimplifier::simplify` output is exported and
//!  * the Lean side evaluates input and output on ALL rows of the small exhaustive domain
//!    (`equiv`: a per-instance exhaustive test, not a theorem),
//!  * implementation-level oracle: input and output are both evaluated physically
//!    (`create_physical_expr(..).evaluate`) on the same rows; wherever the input evaluates, the
//!    output must give the same value and the same data type; the same for
//!    `PhysicalExprSimplifier::simplify`.
//! The `Operator::negate` / `Operator::swap` tables are compared entry by entry with the model's.
use std::sync::Arc;

use arrow::datatypes::{Field, Schema};
use datafusion_common::DFSchema;
use datafusion_expr::Operator;
use datafusion_expr::simplify::SimplifyContext;
use datafusion_optimizer::simplify_expressions::ExprSimplifier;
use datafusion_physical_expr::PhysicalExpr;
use datafusion_physical_expr::simplifier::PhysicalExprSimplifier;
use hutil::{Args, Rng, Run};

use crate::c33::eval_batch;
use crate::sqlgen::*;

fn gen_cols(rng: &mut Rng) -> (Vec<(String, Ty)>, Vec<bool>) {
    let nc = 1 + rng.below(3) as usize;
    let mut cols = vec![];
    let mut nullable = vec![];
    for i in 0..nc {
        cols.push((format!("c{i}"), gen_ty(rng)));
        nullable.push(rng.chance(2, 3));
    }
    (cols, nullable)
}

fn schema_with_nullability(cols: &[(String, Ty)], nullable: &[bool]) -> Arc<Schema> {
    Arc::new(Schema::new(cols.iter().zip(nullable).map(|((n, t), nl)| Field::new(n, t.arrow(), *nl)).collect::<Vec<_>>()))
}

/// shapes the rules of expr_simplifier.rs / unwrap_cast.rs / inlist_simplifier.rs look for
fn bait(rng: &mut Rng, g: &ExprGen, cols: &[(String, Ty)]) -> Expr {
    let b = |e: Expr| Box::new(e);
    let any_col = |rng: &mut Rng| rng.below(cols.len() as u64) as usize;
    let int_cols: Vec<usize> = cols.iter().enumerate().filter(|(_, c)| c.1.is_int()).map(|(i, _)| i).collect();
    let bool_e = |rng: &mut Rng| g.expr(rng, Ty::Bool, 1);
    match rng.below(22) {
        0 => {
            let i = any_col(rng);
            Expr::bin(*rng.pick(&[Op::Eq, Op::Ne, Op::Le, Op::Lt, Op::NotDistinct, Op::Distinct]), Expr::Col(i), Expr::Col(i))
        }
        1 => {
            let a = bool_e(rng);
            Expr::bin(*rng.pick(&[Op::Or, Op::And]), a.clone(), Expr::Not(b(a)))
        }
        2 => {
            let a = bool_e(rng);
            Expr::bin(*rng.pick(&[Op::Or, Op::And]), Expr::Not(b(a.clone())), a)
        }
        3 | 4 if !int_cols.is_empty() => {
            let i = *rng.pick(&int_cols);
            let Ty::Int(w) = cols[i].1 else { unreachable!() };
            let k = *rng.pick(&[0i64, 1, 1, 0, -1]);
            let op = *rng.pick(&[Op::Mul, Op::Mul, Op::Div, Op::Mod, Op::Add, Op::Sub]);
            let l = Expr::Lit(Val::Int(w, k), cols[i].1, false);
            if rng.chance(1, 2) { Expr::bin(op, Expr::Col(i), l) } else { Expr::bin(op, l, Expr::Col(i)) }
        }
        5 => {
            let t = g.any_ty_pub(rng);
            let (l, r) = g.comparable_pair(rng, t, 1);
            Expr::Not(b(Expr::bin(*rng.pick(&[Op::Eq, Op::Ne, Op::Lt, Op::Le, Op::Gt, Op::Ge, Op::Distinct, Op::NotDistinct]), l, r)))
        }
        6 => Expr::Not(b(Expr::bin(*rng.pick(&[Op::And, Op::Or]), bool_e(rng), bool_e(rng)))),
        7 => {
            let t = g.any_ty_pub(rng);
            Expr::In(rng.chance(1, 2), b(g.expr(rng, t, 1)), vec![])
        }
        8 => {
            let t = g.any_ty_pub(rng);
            let n = 1 + rng.below(3) as usize;
            Expr::In(rng.chance(1, 2), b(Expr::Lit(Val::Null, t, false)), (0..n).map(|_| g.lit(rng, t)).collect())
        }
        9 | 10 if !int_cols.is_empty() => {
            // CAST / TRY_CAST of a column compared with a literal of the target type (unwrap_cast)
            let i = *rng.pick(&int_cols);
            let Ty::Int(w) = cols[i].1 else { unreachable!() };
            let w2 = *rng.pick(&[8u8, 16, 32, 64]);
            let k = *rng.pick(&[0i64, 1, 5, -1, int_max(w2), int_min(w2), int_max(w.min(w2)), int_max(w.min(w2)).wrapping_add(1).min(int_max(w2))]);
            let c = Expr::Cast { ty: Ty::Int(w2), try_: rng.chance(1, 2), implicit: false, e: b(Expr::Col(i)) };
            let l = Expr::Lit(Val::Int(w2, k), Ty::Int(w2), false);
            let op = *rng.pick(&Op::CMP);
            let cmp = if rng.chance(3, 4) { Expr::bin(op, c, l) } else { Expr::bin(op, l, c) };
            match rng.below(4) {
                0 => Expr::Not(b(cmp)),
                1 => Expr::Is(IsKind::Null, rng.chance(1, 2), b(cmp)),
                _ => cmp,
            }
        }
        11 if !int_cols.is_empty() => {
            // cast column IN (literals)
            let i = *rng.pick(&int_cols);
            let w2 = *rng.pick(&[8u8, 16, 32, 64]);
            let c = Expr::Cast { ty: Ty::Int(w2), try_: rng.chance(1, 2), implicit: false, e: b(Expr::Col(i)) };
            let n = 1 + rng.below(3) as usize;
            Expr::In(rng.chance(1, 2), b(c), (0..n).map(|_| g.lit(rng, Ty::Int(w2))).collect())
        }
        12 | 13 => {
            // a = l1 OR a = l2 …, a IN (..) AND a [NOT] IN (..)
            let i = any_col(rng);
            let t = cols[i].1;
            let mk_in = |rng: &mut Rng| {
                let n = 1 + rng.below(3) as usize;
                Expr::In(rng.chance(1, 3), b(Expr::Col(i)), (0..n).map(|_| g.lit(rng, t)).collect())
            };
            match rng.below(3) {
                0 => Expr::bin(Op::Or, Expr::bin(Op::Eq, Expr::Col(i), g.lit(rng, t)), Expr::bin(Op::Eq, Expr::Col(i), g.lit(rng, t))),
                1 => Expr::bin(Op::And, mk_in(rng), mk_in(rng)),
                _ => Expr::bin(Op::Or, mk_in(rng), mk_in(rng)),
            }
        }
        14 => {
            // CASE with literal conditions
            let t = g.any_ty_pub(rng);
            let c = |rng: &mut Rng| if rng.chance(1, 2) { Expr::Lit(Val::Bool(rng.chance(1, 2)), Ty::Bool, false) } else { g.expr(rng, Ty::Bool, 1) };
            let n = 1 + rng.below(3) as usize;
            Expr::Case(None, (0..n).map(|_| (c(rng), g.expr(rng, t, 1))).collect(), if rng.chance(1, 2) { Some(b(g.expr(rng, t, 1))) } else { None })
        }
        15 => {
            // boolean CASE (rewritten into AND/OR)
            let n = 1 + rng.below(2) as usize;
            let bl = |rng: &mut Rng| if rng.chance(1, 2) { Expr::Lit(rng.pick(&[Val::Bool(true), Val::Bool(false), Val::Null]).clone(), Ty::Bool, false) } else { g.expr(rng, Ty::Bool, 1) };
            Expr::Case(None, (0..n).map(|_| (g.expr(rng, Ty::Bool, 1), bl(rng))).collect(), if rng.chance(2, 3) { Some(b(bl(rng))) } else { None })
        }
        16 => {
            let a = bool_e(rng);
            let l = Expr::Lit(rng.pick(&[Val::Bool(true), Val::Bool(false), Val::Null]).clone(), Ty::Bool, false);
            let op = *rng.pick(&[Op::Eq, Op::Ne, Op::And, Op::Or, Op::Distinct, Op::NotDistinct]);
            if rng.chance(1, 2) { Expr::bin(op, a, l) } else { Expr::bin(op, l, a) }
        }
        17 => {
            // absorption / common factors
            let (a, c, d) = (bool_e(rng), bool_e(rng), bool_e(rng));
            match rng.below(4) {
                0 => Expr::bin(Op::Or, a.clone(), Expr::and(a, c)),
                1 => Expr::and(a.clone(), Expr::bin(Op::Or, a, c)),
                2 => Expr::bin(Op::Or, Expr::and(a.clone(), c), Expr::and(a, d)),
                _ => Expr::and(Expr::and(a.clone(), c), a),
            }
        }
        18 => {
            let t = if rng.chance(2, 3) { Ty::Int(64) } else { Ty::Str };
            Expr::Between(rng.chance(1, 2), b(g.expr(rng, t, 1)), b(g.lit(rng, t)), b(g.lit(rng, t)))
        }
        19 if !int_cols.is_empty() => {
            // A >= c AND A <= c ; A = L1 AND A != L2
            let i = *rng.pick(&int_cols);
            let t = cols[i].1;
            let (l1, l2) = (g.lit(rng, t), g.lit(rng, t));
            match rng.below(2) {
                0 => Expr::and(Expr::bin(Op::Ge, Expr::Col(i), l1.clone()), Expr::bin(Op::Le, Expr::Col(i), l1)),
                _ => Expr::and(Expr::bin(Op::Eq, Expr::Col(i), l1), Expr::bin(Op::Ne, Expr::Col(i), l2)),
            }
        }
        20 => {
            let t = g.any_ty_pub(rng);
            Expr::Is(IsKind::Null, rng.chance(1, 2), b(g.expr(rng, t, 1)))
        }
        _ => {
            // LIKE with constant patterns
            let pats = ["%", "a%", "%a", "a", "", "a_", "%%", "A\\%"];
            Expr::Like { neg: rng.chance(1, 3), ci: false, e: b(g.expr(rng, Ty::Str, 1)), pat: b(Expr::Lit(Val::Str(rng.pick(&pats).replace('\\', "")), Ty::Str, false)), esc: None }
        }
    }
}

fn embed(rng: &mut Rng, g: &ExprGen, e: Expr, ty_is_bool: bool) -> Expr {
    // put the bait under a few more operators so that rules have to compose
    if !ty_is_bool {
        return e;
    }
    match rng.below(6) {
        0 => Expr::Not(Box::new(e)),
        1 => Expr::and(e, g.expr(rng, Ty::Bool, 1)),
        2 => Expr::bin(Op::Or, g.expr(rng, Ty::Bool, 1), e),
        3 => Expr::Is(*rng.pick(&[IsKind::True, IsKind::False, IsKind::Unknown, IsKind::Null]), rng.chance(1, 2), Box::new(e)),
        _ => e,
    }
}

pub fn run(run: &mut Run, args: &Args) {
    let mut rng = Rng::new(args.seed);
    hutil::quiet_panics();
    // ---- Operator::negate / Operator::swap tables
    let ops: [(Operator, &str); 16] = [
        (Operator::Plus, "add"),
        (Operator::Minus, "sub"),
        (Operator::Multiply, "mul"),
        (Operator::Divide, "div"),
        (Operator::Modulo, "mod"),
        (Operator::Eq, "eq"),
        (Operator::NotEq, "ne"),
        (Operator::Lt, "lt"),
        (Operator::LtEq, "le"),
        (Operator::Gt, "gt"),
        (Operator::GtEq, "ge"),
        (Operator::And, "and"),
        (Operator::Or, "or"),
        (Operator::IsDistinctFrom, "distinct"),
        (Operator::IsNotDistinctFrom, "notdistinct"),
        (Operator::StringConcat, "concat"),
    ];
    let name_of = |o: Option<Operator>| -> String {
        match o {
            None => "none".into(),
            Some(o) => ops.iter().find(|(x, _)| *x == o).map(|(_, n)| n.to_string()).unwrap_or_else(|| format!("other:{o:?}")),
        }
    };
    for (o, n) in &ops {
        run.case("negate", n, &name_of(o.negate()), true);
        run.case("swap", n, &name_of(o.swap()), true);
    }

    view_strings(run, &mut rng);
    extra_rules(run, &mut rng);

    let n = run.budget(2500, 60_000);
    for i in 0..n {
        let (cols, nullable) = gen_cols(&mut rng);
        let infos: Vec<ColInfo> = cols.iter().map(|(n, t)| ColInfo { sql: n.clone(), ty: *t }).collect();
        let g = ExprGen { cols: &infos, outer: &[], err_pct: 15, allow_like: true };
        let e = if rng.chance(1, 2) {
            let raw = bait(&mut rng, &g, &cols);
            let is_bool = {
                use datafusion_expr::ExprSchemable;
                let s0 = DFSchema::try_from(schema_of(&cols).as_ref().clone()).unwrap();
                matches!(raw.df(&cols).get_type(&s0), Ok(arrow::datatypes::DataType::Boolean))
            };
            embed(&mut rng, &g, raw, is_bool)
        } else {
            let ty = if rng.chance(2, 3) { Ty::Bool } else { gen_ty(&mut rng) };
            let dd = 1 + rng.below(if run.thorough() { 4 } else { 3 }) as u32;
            g.expr(&mut rng, ty, dd)
        };
        // `embed` may have wrapped a non-boolean bait in boolean operators: keep only well-typed trees
        let schema = schema_with_nullability(&cols, &nullable);
        let dfs = Arc::new(DFSchema::try_from(schema.as_ref().clone()).unwrap());
        let de = e.df(&cols);
        use datafusion_expr::ExprSchemable;
        if de.get_type(dfs.as_ref()).is_err() {
            run.count("ill-typed-skipped");
            continue;
        }
        let doms: Vec<Vec<Val>> = cols.iter().zip(&nullable).map(|((_, t), nl)| domain_of(*t).into_iter().filter(|v| *nl || *v != Val::Null).collect()).collect();
        let mut rows = all_rows(&doms);
        for _ in 0..6 {
            rows.push(cols.iter().zip(&nullable).map(|((_, t), nl)| gen_val(&mut rng, *t, if *nl { 15 } else { 0 })).collect());
        }
        let ctx = SimplifyContext::builder().with_schema(Arc::clone(&dfs)).build();
        let simplifier = ExprSimplifier::new(ctx);
        let de2 = de.clone();
        let simp = hutil::catch(std::panic::AssertUnwindSafe(move || simplifier.simplify(de2)));
        let simp = match simp {
            Ok(Ok(s)) => s,
            Ok(Err(m)) => {
                // the simplifier may reject an expression only by failing the whole planning: a
                // failure here on an expression that evaluates is reported through the oracle below
                run.count("simplify:error");
                if run.notes.len() < 8 {
                    run.note(&format!("simplify failed on {}: {}", e.sexp(), m.to_string().chars().take(200).collect::<String>()));
                }
                continue;
            }
            Err(p) => {
                run.oracle(false, &format!("simplify panic {}", e.sexp()), &p);
                continue;
            }
        };
        // shapes of the known findings (see notes/C04.md): the case / oracle names carry them so that
        // known_findings.json can match exactly these and nothing else
        let mut cs0 = std::collections::BTreeSet::new();
        e.constructs(&mut cs0);
        let shape = if cs0.contains("try-cast") {
            "-trycast"
        } else if cs0.contains("in-list") {
            "-inlist"
        } else if (cs0.contains("case-searched") || cs0.contains("case-simple") || cs0.contains("coalesce")) && (cs0.contains("cast") || cs0.contains("div-mod")) {
            // boolean CASE / COALESCE rewritten into AND/OR: guarded fallible branches become unguarded
            "-case-fallible"
        } else {
            ""
        };
        if !shape.is_empty() {
            run.count(&format!("shape:{}", &shape[1..]));
        }
        let changed = simp != de;
        run.count(if changed { "simplify:changed" } else { "simplify:unchanged" });
        let mut cs = std::collections::BTreeSet::new();
        e.constructs(&mut cs);
        for c in &cs {
            run.count(&format!("construct:{c}"));
        }
        // ---- model: exhaustive equivalence on the domain
        let orig_s = e.sexp();
        match export_df(&simp, dfs.as_ref()) {
            Ok(simp_s) => {
                run.case(&format!("equiv{shape}"), &format!("({orig_s} {simp_s} {})", rows_sexp(&rows)), "ok", changed);
            }
            Err(what) => {
                run.count(&format!("export-unsupported:{what}"));
            }
        }
        // ---- implementation-level oracle: physical evaluation of input and output
        let props = datafusion_expr::execution_props::ExecutionProps::new();
        let pctx = datafusion_expr::physical_planning_context::PhysicalPlanningContext::default();
        // (the physical planner needs COALESCE in its CASE form, which only the simplifier produces)
        let de_phys = e.lower_coalesce().df(&cols);
        let p0 = datafusion_physical_expr::create_physical_expr(&de_phys, dfs.as_ref(), &props, &pctx);
        let p1 = datafusion_physical_expr::create_physical_expr(&simp, dfs.as_ref(), &props, &pctx);
        let (p0, p1) = match (p0, p1) {
            (Ok(a), Ok(b)) => (a, b),
            (Err(_), _) => {
                run.count("physical:orig-rejected");
                continue;
            }
            (Ok(_), Err(m)) => {
                run.oracle(false, &format!("simplified-not-plannable {orig_s}"), &format!("simplified {simp} : {m}"));
                continue;
            }
        };
        let sig = format!("simplify{shape}#{i} {orig_s} => {simp}");
        check_same(run, &sig, &cols, &schema, &rows, &p0, &p1, "ExprSimplifier");
        // data type must be preserved
        if let (Ok(t0), Ok(t1)) = (p0.data_type(schema.as_ref()), p1.data_type(schema.as_ref())) {
            let same = ty_of_arrow(&t0) == ty_of_arrow(&t1) || t0 == t1 || t0 == arrow::datatypes::DataType::Null;
            run.oracle(same, &format!("type-changed {orig_s} => {simp}"), &format!("{t0} became {t1}"));
        }
        // ---- PhysicalExprSimplifier
        let ps = PhysicalExprSimplifier::new(schema.as_ref());
        let p0c = Arc::clone(&p0);
        match hutil::catch(std::panic::AssertUnwindSafe(move || ps.simplify(p0c))) {
            Ok(Ok(p2)) => {
                let ch = format!("{p2}") != format!("{p0}");
                run.count(if ch { "physical-simplify:changed" } else { "physical-simplify:unchanged" });
                check_same(run, &format!("physical-simplify{shape}#{i} {orig_s} => {p2}"), &cols, &schema, &rows, &p0, &p2, "PhysicalExprSimplifier");
            }
            Ok(Err(m)) => {
                run.count("physical-simplify:error");
                let _ = m;
            }
            Err(p) => run.oracle(false, &format!("physical-simplify panic {orig_s}"), &p),
        }
    }
}

/// Utf8View column compared with string literals in both orientations, through the full
/// `ctx.sql` path (analyzer + optimizer + execution): `SELECT id FROM tv WHERE <pred>`; the kept
/// ids are judged by the Lean evaluator on the same rows (`sqlfilter`).
fn view_strings(run: &mut Run, rng: &mut Rng) {
    use arrow::array::{ArrayRef, Int64Array, StringViewArray};
    use arrow::datatypes::DataType;
    let rt = tokio::runtime::Builder::new_current_thread().enable_all().build().unwrap();
    let n = run.budget(120, 1500);
    let lits = ["x", "y", "", "xy"];
    for _ in 0..n {
        let nrows = 3 + rng.below(6) as usize;
        let vals: Vec<Option<&str>> = (0..nrows).map(|_| if rng.chance(1, 6) { None } else { Some(*rng.pick(&lits)) }).collect();
        let schema = Arc::new(Schema::new(vec![Field::new("a", DataType::Utf8View, true), Field::new("id", DataType::Int64, false)]));
        let a: ArrayRef = Arc::new(StringViewArray::from(vals.clone()));
        let id: ArrayRef = Arc::new(Int64Array::from((0..nrows as i64).collect::<Vec<_>>()));
        let batch = arrow::record_batch::RecordBatch::try_new(Arc::clone(&schema), vec![a, id]).unwrap();
        let ctx = datafusion::prelude::SessionContext::new_with_config(datafusion::prelude::SessionConfig::new().with_target_partitions(1));
        let mt = datafusion::datasource::MemTable::try_new(Arc::clone(&schema), vec![vec![batch]]).unwrap();
        ctx.register_table("tv", Arc::new(mt)).unwrap();
        // predicate: 2–3 atoms `a op L` / `L op a` joined by AND / OR, optionally negated
        let col = || Expr::Col(0);
        let lit = |s: &str| Expr::Lit(Val::Str(s.to_string()), Ty::Str, false);
        let mut atoms = vec![];
        let mut commuted = (false, false);
        for _ in 0..(2 + rng.below(2)) {
            let l = lit(*rng.pick(&lits));
            let op = *rng.pick(&[Op::Eq, Op::Eq, Op::Eq, Op::Ne, Op::Lt, Op::Ge]);
            if rng.chance(1, 2) {
                commuted.0 = true;
                atoms.push(Expr::bin(op, col(), l));
            } else {
                commuted.1 = true;
                atoms.push(Expr::bin(op, l, col()));
            }
        }
        let conn = *rng.pick(&[Op::And, Op::And, Op::Or]);
        let mut pred = atoms.pop().unwrap();
        while let Some(a) = atoms.pop() {
            pred = Expr::bin(conn, a, pred);
        }
        if rng.chance(1, 5) {
            pred = Expr::Not(Box::new(pred));
        }
        let sc = Scope { cols: vec![ColInfo { sql: "tv.a".into(), ty: Ty::Str }], outer: vec![] };
        let sql = format!("SELECT id FROM tv WHERE {}", pred.sql(&sc));
        let res = crate::c01::run_sql(&rt, &ctx, &sql);
        let rows: Vec<Vec<Val>> = vals.iter().map(|v| vec![v.map(|s| Val::Str(s.to_string())).unwrap_or(Val::Null)]).collect();
        let impl_s = match &res {
            Ok(r) => {
                let mut ids: Vec<i64> = r.iter().filter_map(|x| if let Val::Int(_, n) = &x[0] { Some(*n) } else { None }).collect();
                ids.sort();
                format!("(ok ({}))", ids.iter().map(|i| i.to_string()).collect::<Vec<_>>().join(" "))
            }
            Err(m) => format!("(err {})", err_class(m)),
        };
        let both = commuted.0 && commuted.1;
        run.count(if both { "viewstr:both-orientations" } else { "viewstr:one-orientation" });
        let op = if both { "sqlfilter-commuted-utf8view" } else { "sqlfilter" };
        run.case(op, &format!("({} {} {impl_s})", pred.sexp(), rows_sexp(&rows)), "ok", true);
    }
}

/// wherever `p0` evaluates, `p1` must evaluate to the same value (row by row)
fn check_same(run: &mut Run, sig: &str, cols: &[(String, Ty)], schema: &Arc<Schema>, rows: &[Vec<Val>], p0: &Arc<dyn PhysicalExpr>, p1: &Arc<dyn PhysicalExpr>, who: &str) {
    let mk = |rs: &[Vec<Val>]| {
        let b = batch_of(cols, rs);
        arrow::record_batch::RecordBatch::try_new(Arc::clone(schema), b.columns().to_vec()).unwrap_or(b)
    };
    let whole = mk(rows);
    let r0 = eval_batch(p0, &whole);
    match r0 {
        Ok(v0) => {
            let r1 = eval_batch(p1, &whole);
            let ok = matches!(&r1, Ok(v1) if *v1 == v0);
            let detail = match &r1 {
                Ok(v1) => {
                    let j = v0.iter().zip(v1).position(|(a, b)| a != b).unwrap_or(0);
                    format!("{who}: row {} : input evaluates to {} , output to {}", row_sexp(&rows[j.min(rows.len() - 1)]), v0[j.min(v0.len() - 1)].sexp(), v1.get(j).map(|v| v.sexp()).unwrap_or_default())
                }
                Err(m) => format!("{who}: input evaluates on all {} rows, output fails: {}", rows.len(), m.chars().take(200).collect::<String>()),
            };
            run.oracle(ok, sig, &detail);
        }
        Err(_) => {
            // the input fails somewhere in the batch: go row by row
            let mut bad: Option<String> = None;
            for r in rows {
                let one = mk(std::slice::from_ref(r));
                if let Ok(v0) = eval_batch(p0, &one) {
                    match eval_batch(p1, &one) {
                        Ok(v1) if v1 == v0 => {}
                        Ok(v1) => {
                            bad = Some(format!("{who}: row {} : input evaluates to {} , output to {}", row_sexp(r), v0[0].sexp(), v1[0].sexp()));
                            break;
                        }
                        Err(m) => {
                            bad = Some(format!("{who}: row {} : input evaluates to {} , output fails: {}", row_sexp(r), v0[0].sexp(), m.chars().take(200).collect::<String>()));
                            break;
                        }
                    }
                }
            }
            run.count("oracle:row-by-row");
            run.oracle(bad.is_none(), sig, &bad.unwrap_or_default());
        }
    }
}

/// Rewrites outside the Lean expression language (regex -> LIKE/ILIKE/=, unwrap_cast on temporal
/// types, `simplify_predicates` on filter conjunctions): judged by the implementation-level oracle
/// only — input and output are evaluated physically on the same rows and must give the same column.
fn extra_rules(run: &mut Run, rng: &mut Rng) {
    use arrow::array::{Array, ArrayRef, BooleanArray, Int32Array, StringArray};
    use arrow::datatypes::{DataType, TimeUnit};
    use arrow::record_batch::RecordBatch;
    use datafusion_common::ScalarValue;
    use datafusion_expr::{BinaryExpr, Expr as DE, col, lit};
    let props = datafusion_expr::execution_props::ExecutionProps::new();
    let pctx = datafusion_expr::physical_planning_context::PhysicalPlanningContext::default();
    let eval = |e: &DE, dfs: &DFSchema, b: &RecordBatch| -> Result<ArrayRef, String> {
        let p = datafusion_physical_expr::create_physical_expr(e, dfs, &props, &pctx).map_err(|m| format!("plan: {m}"))?;
        p.evaluate(b).and_then(|v| v.into_array(b.num_rows())).map_err(|m| format!("eval: {m}"))
    };
    let show = |a: &ArrayRef, i: usize| arrow::util::display::array_value_to_string(a, i).unwrap_or_default();
    let simplify = |e: &DE, dfs: &Arc<DFSchema>| -> Result<DE, String> {
        let ctx = SimplifyContext::builder().with_schema(Arc::clone(dfs)).build();
        let e2 = e.clone();
        match hutil::catch(std::panic::AssertUnwindSafe(move || ExprSimplifier::new(ctx).simplify(e2))) {
            Ok(Ok(s)) => Ok(s),
            Ok(Err(m)) => Err(format!("error {m}")),
            Err(p) => Err(format!("panic {p}")),
        }
    };
    // judge: wherever the input evaluates (whole batch), the output must be the same column
    let judge = |run: &mut Run, kind: &str, e: &DE, s: &DE, dfs: &DFSchema, b: &RecordBatch, show_row: &dyn Fn(usize) -> String| {
        let Ok(v0) = eval(e, dfs, b) else {
            run.count(&format!("{kind}:input-fails"));
            return;
        };
        let sig = format!("{kind} {e} => {s}");
        match eval(s, dfs, b) {
            Ok(v1) => {
                let same_ty = v0.data_type() == v1.data_type();
                let bad = (0..b.num_rows()).find(|&i| v0.is_null(i) != v1.is_null(i) || show(&v0, i) != show(&v1, i));
                let detail = match bad {
                    Some(i) => format!("row {} : input evaluates to {} , output to {}", show_row(i), show(&v0, i), show(&v1, i)),
                    None => format!("type {} became {}", v0.data_type(), v1.data_type()),
                };
                run.oracle(bad.is_none() && same_ty, &sig, &detail);
            }
            Err(m) => run.oracle(false, &sig, &format!("input evaluates on all rows, output fails: {}", m.chars().take(200).collect::<String>())),
        }
    };

    // ---- (a) regex operators with literal patterns (regex.rs)
    let n = run.budget(400, 6000);
    let pieces = ["a", "b", "A", "_", "%", ".", "ab", "a_b", "%b", "\\."];
    let strs = ["", "a", "b", "A", "ab", "aXb", "a_b", "a%b", "AB", "Ab", "aab", "abb", "a.b", "_", "%", "X", "axyzb", "B", "%b", "xb", "a_", "aX", "A_B", "AxB"];
    for _ in 0..n {
        let mut pat = String::new();
        let anchored_l = rng.chance(2, 3);
        let anchored_r = rng.chance(2, 3);
        if anchored_l {
            pat.push('^');
        }
        let alt = rng.chance(1, 5);
        if alt {
            pat.push('(');
        }
        for k in 0..(1 + rng.below(3)) {
            if alt && k > 0 {
                pat.push('|');
            }
            pat.push_str(&rng.pick(&pieces).replace("\\\\", "\\"));
        }
        if alt {
            pat.push(')');
        }
        if anchored_r {
            pat.push('$');
        }
        if rng.chance(1, 8) {
            pat = format!(".*{pat}");
        }
        let op = *rng.pick(&[Operator::RegexMatch, Operator::RegexIMatch, Operator::RegexNotMatch, Operator::RegexNotIMatch]);
        let nullable = rng.chance(2, 3);
        let schema = Arc::new(Schema::new(vec![Field::new("s", DataType::Utf8, nullable)]));
        let dfs = Arc::new(DFSchema::try_from(schema.as_ref().clone()).unwrap());
        let mut vals: Vec<Option<&str>> = strs.iter().map(|s| Some(*s)).collect();
        if nullable {
            vals.push(None);
        }
        let b = RecordBatch::try_new(Arc::clone(&schema), vec![Arc::new(StringArray::from(vals.clone())) as ArrayRef]).unwrap();
        let e = DE::BinaryExpr(BinaryExpr::new(Box::new(col("s")), op, Box::new(lit(pat.as_str()))));
        let e = if rng.chance(1, 4) { DE::Not(Box::new(e)) } else { e };
        match simplify(&e, &dfs) {
            Ok(s) => {
                run.count(if s != e { "regex:changed" } else { "regex:unchanged" });
                run.count(&format!("regex-op:{op:?}"));
                if pat.contains('_') || pat.contains('%') {
                    run.count("regex:pattern-with-like-wildcard");
                }
                judge(run, "regex-simplify", &e, &s, dfs.as_ref(), &b, &|i| format!("s={:?}", vals[i]));
            }
            Err(m) if m.starts_with("panic") => run.oracle(false, &format!("regex-simplify panic {e}"), &m),
            Err(_) => run.count("regex:simplify-error"),
        }
    }

    // ---- (b) unwrap_cast over timestamp units (unwrap_cast.rs: comparison and IN-list guards)
    let units = [TimeUnit::Second, TimeUnit::Millisecond, TimeUnit::Microsecond, TimeUnit::Nanosecond];
    let ts_lit = |u: TimeUnit, v: i64| match u {
        TimeUnit::Second => ScalarValue::TimestampSecond(Some(v), None),
        TimeUnit::Millisecond => ScalarValue::TimestampMillisecond(Some(v), None),
        TimeUnit::Microsecond => ScalarValue::TimestampMicrosecond(Some(v), None),
        TimeUnit::Nanosecond => ScalarValue::TimestampNanosecond(Some(v), None),
    };
    let n = run.budget(400, 6000);
    for _ in 0..n {
        let from = *rng.pick(&units);
        let to = *rng.pick(&units);
        let nullable = rng.chance(2, 3);
        let schema = Arc::new(Schema::new(vec![Field::new("t", DataType::Timestamp(from, None), nullable)]));
        let dfs = Arc::new(DFSchema::try_from(schema.as_ref().clone()).unwrap());
        // column values around the unit boundaries: multiples and non-multiples of 1000 / 10^6
        let base = [0i64, 1, 2, 999, 1000, 1001, 1500, 2000, 2500, 1_000_000, 1_500_000, 2_000_000, 1_000_000_000, 1_500_000_000, 2_000_000_000, -1, -1000, -1500];
        let mut vals: Vec<Option<i64>> = base.iter().map(|v| Some(*v)).collect();
        if nullable {
            vals.push(None);
        }
        let arr: ArrayRef = match from {
            TimeUnit::Second => Arc::new(arrow::array::TimestampSecondArray::from(vals.clone())),
            TimeUnit::Millisecond => Arc::new(arrow::array::TimestampMillisecondArray::from(vals.clone())),
            TimeUnit::Microsecond => Arc::new(arrow::array::TimestampMicrosecondArray::from(vals.clone())),
            TimeUnit::Nanosecond => Arc::new(arrow::array::TimestampNanosecondArray::from(vals.clone())),
        };
        let b = RecordBatch::try_new(Arc::clone(&schema), vec![arr]).unwrap();
        let used = std::cell::RefCell::new(vec![]);
        let lv = |rng: &mut Rng| {
            let v = *rng.pick(&[0i64, 1, 2, 1000, 1500, 2000, 1_000_000, 2_000_000, -1]);
            used.borrow_mut().push(v);
            ts_lit(to, v)
        };
        let target = DataType::Timestamp(to, None);
        let castc = if rng.chance(1, 4) {
            DE::TryCast(datafusion_expr::TryCast::new(Box::new(col("t")), target.clone()))
        } else {
            DE::Cast(datafusion_expr::Cast::new(Box::new(col("t")), target.clone()))
        };
        let is_try = matches!(castc, DE::TryCast(_));
        let (e, kind) = if rng.chance(1, 2) {
            let k = 1 + rng.below(3) as usize;
            let list: Vec<DE> = (0..k).map(|_| DE::Literal(lv(rng), None)).collect();
            (castc.in_list(list, rng.chance(1, 3)), if k == 1 { "in1" } else { "in" })
        } else {
            let op = *rng.pick(&[Operator::Eq, Operator::NotEq, Operator::Lt, Operator::LtEq, Operator::Gt, Operator::GtEq]);
            (DE::BinaryExpr(BinaryExpr::new(Box::new(castc), op, Box::new(DE::Literal(lv(rng), None)))), "cmp")
        };
        let dir = if from == to { "same" } else if units.iter().position(|u| *u == to) < units.iter().position(|u| *u == from) { "narrowing" } else { "widening" };
        match simplify(&e, &dfs) {
            Ok(s) => {
                run.count(&format!("tscast:{kind}:{dir}:{}", if s != e { "changed" } else { "unchanged" }));
                // is every literal representable in the column's (coarser) unit?
                let scale = |u: TimeUnit| match u {
                    TimeUnit::Second => 1i64,
                    TimeUnit::Millisecond => 1_000,
                    TimeUnit::Microsecond => 1_000_000,
                    TimeUnit::Nanosecond => 1_000_000_000,
                };
                let f = if scale(to) > scale(from) { scale(to) / scale(from) } else { 1 };
                let exact = used.borrow().iter().all(|v| v % f == 0);
                let k = format!("tscast-{}simplify:{dir}:{}", if is_try { "trycast-" } else { "" }, if exact { "exact-literals" } else { "inexact-literal" });
                judge(run, &k, &e, &s, dfs.as_ref(), &b, &|i| format!("t={:?}", vals[i]));
            }
            Err(m) if m.starts_with("panic") => run.oracle(false, &format!("tscast-simplify panic {e}"), &m),
            Err(_) => run.count("tscast:simplify-error"),
        }
    }

    // ---- (c) simplify_predicates on a filter conjunction (simplify_predicates.rs): the conjunction of
    // the outputs must keep exactly the rows the conjunction of the inputs keeps
    let n = run.budget(600, 10_000);
    for _ in 0..n {
        let schema = Arc::new(Schema::new(vec![Field::new("x", DataType::Int32, true), Field::new("y", DataType::Int32, true)]));
        let dfs = Arc::new(DFSchema::try_from(schema.as_ref().clone()).unwrap());
        let mut xs = vec![];
        let mut ys = vec![];
        for x in [None, Some(3), Some(4), Some(5), Some(6), Some(7)] {
            for y in [None, Some(4), Some(5), Some(6)] {
                xs.push(x);
                ys.push(y);
            }
        }
        let b = RecordBatch::try_new(Arc::clone(&schema), vec![Arc::new(Int32Array::from(xs.clone())) as ArrayRef, Arc::new(Int32Array::from(ys.clone())) as ArrayRef]).unwrap();
        let k = 2 + rng.below(4) as usize;
        let mut preds = vec![];
        let mut tie = false;
        let mut seen: Vec<(bool, i32, Operator)> = vec![];
        // a literal-on-the-left predicate sharing column and literal with another predicate: the
        // shape of the known findings (see notes/C04.md §Findings 5)
        let mut shape: Vec<(bool, i32, bool)> = vec![];
        let mut commuted_equal = false;
        for _ in 0..k {
            let onx = rng.chance(3, 4);
            let c = 4 + rng.below(3) as i32;
            let op = *rng.pick(&[Operator::Lt, Operator::LtEq, Operator::Gt, Operator::GtEq, Operator::Eq, Operator::NotEq]);
            if seen.iter().any(|(a, d, o)| *a == onx && *d == c && *o != op) {
                tie = true;
            }
            seen.push((onx, c, op));
            let column = col(if onx { "x" } else { "y" });
            let lit_left = rng.chance(1, 5);
            if lit_left && shape.iter().any(|(a, d, _)| *a == onx && *d == c) || !lit_left && shape.iter().any(|(a, d, l)| *a == onx && *d == c && *l) {
                commuted_equal = true;
            }
            shape.push((onx, c, lit_left));
            let p = if lit_left {
                DE::BinaryExpr(BinaryExpr::new(Box::new(lit(c)), op.swap().unwrap_or(op), Box::new(column)))
            } else {
                DE::BinaryExpr(BinaryExpr::new(Box::new(column), op, Box::new(lit(c))))
            };
            preds.push(p);
        }
        run.count(if tie { "preds:equal-literal-mixed-ops" } else { "preds:other" });
        let inp = preds.clone();
        let out = match hutil::catch(std::panic::AssertUnwindSafe(move || datafusion_optimizer::simplify_expressions::simplify_predicates(inp))) {
            Ok(Ok(o)) => o,
            Ok(Err(_)) => {
                run.count("preds:error");
                continue;
            }
            Err(p) => {
                run.oracle(false, &format!("simplify_predicates panic {preds:?}"), &p);
                continue;
            }
        };
        run.count(if out != preds { "preds:changed" } else { "preds:unchanged" });
        let conj = |v: &[DE]| v.iter().cloned().reduce(|a, b| a.and(b)).unwrap_or_else(|| lit(true));
        let (e0, e1) = (conj(&preds), conj(&out));
        let sig = format!("simplify_predicates:{} {e0} => {e1}", if commuted_equal { "commuted-equal-literal" } else { "plain" });
        run.count(if commuted_equal { "preds:commuted-equal-literal" } else { "preds:not-commuted-equal" });
        match (eval(&e0, dfs.as_ref(), &b), eval(&e1, dfs.as_ref(), &b)) {
            (Ok(v0), Ok(v1)) => {
                let (v0, v1) = (v0.as_any().downcast_ref::<BooleanArray>().cloned(), v1.as_any().downcast_ref::<BooleanArray>().cloned());
                let (Some(v0), Some(v1)) = (v0, v1) else {
                    run.oracle(false, &sig, "non-boolean result");
                    continue;
                };
                let keep = |a: &BooleanArray, i: usize| a.is_valid(i) && a.value(i);
                let bad = (0..b.num_rows()).find(|&i| keep(&v0, i) != keep(&v1, i));
                run.oracle(bad.is_none(), &sig, &bad.map(|i| format!("row x={:?} y={:?}: input keeps {}, output keeps {}", xs[i], ys[i], keep(&v0, i), keep(&v1, i))).unwrap_or_default());
            }
            (Ok(_), Err(m)) => run.oracle(false, &sig, &format!("output fails: {m}")),
            _ => run.count("preds:input-fails"),
        }
    }
}
