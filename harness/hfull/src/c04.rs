//! C04 — expression simplification never changes an expression's value.
//!
//! Typed expression trees (random + shapes that the simplifier's rules target) over ≤ 3 typed
//! columns, some declared NOT NULL (so that the nullability-guarded rules fire); the real
//! `ExprSimplifier::simplify` output is exported and
//!  * the Lean side evaluates input and output on ALL rows of the small exhaustive domain
//!    (`equiv`: a per-instance exhaustive test, not a theorem),
//!  * implementation-level oracle: input and output are both evaluated physically
//!    (`create_physical_expr(..).evaluate`) on the same rows; wherever the input evaluates, the
//!    output must give the same value and the same data type; the same for
//!    `PhysicalExprSimplifier::simplify`.
//! The `Operator::negate` / `Operator::swap` tables are compared entry by entry with the model's.
use std::sync::Arc;

use arrow::datatypes::{Field, Schema};
use datafusion_common::DFSchema;
use datafusion_expr::Operator;
use datafusion_expr::simplify::SimplifyContext;
use datafusion_optimizer::simplify_expressions::ExprSimplifier;
use datafusion_physical_expr::PhysicalExpr;
use datafusion_physical_expr::simplifier::PhysicalExprSimplifier;
use hutil::{Args, Rng, Run};

use crate::c33::eval_batch;
use crate::sqlgen::*;

fn gen_cols(rng: &mut Rng) -> (Vec<(String, Ty)>, Vec<bool>) {
    let nc = 1 + rng.below(3) as usize;
    let mut cols = vec![];
    let mut nullable = vec![];
    for i in 0..nc {
        cols.push((format!("c{i}"), gen_ty(rng)));
        nullable.push(rng.chance(2, 3));
    }
    (cols, nullable)
}

fn schema_with_nullability(cols: &[(String, Ty)], nullable: &[bool]) -> Arc<Schema> {
    Arc::new(Schema::new(cols.iter().zip(nullable).map(|((n, t), nl)| Field::new(n, t.arrow(), *nl)).collect::<Vec<_>>()))
}

/// shapes the rules of expr_simplifier.rs / unwrap_cast.rs / inlist_simplifier.rs look for
fn bait(rng: &mut Rng, g: &ExprGen, cols: &[(String, Ty)]) -> Expr {
    let b = |e: Expr| Box::new(e);
    let any_col = |rng: &mut Rng| rng.below(cols.len() as u64) as usize;
    let int_cols: Vec<usize> = cols.iter().enumerate().filter(|(_, c)| c.1.is_int()).map(|(i, _)| i).collect();
    let bool_e = |rng: &mut Rng| g.expr(rng, Ty::Bool, 1);
    match rng.below(22) {
        0 => {
            let i = any_col(rng);
            Expr::bin(*rng.pick(&[Op::Eq, Op::Ne, Op::Le, Op::Lt, Op::NotDistinct, Op::Distinct]), Expr::Col(i), Expr::Col(i))
        }
        1 => {
            let a = bool_e(rng);
            Expr::bin(*rng.pick(&[Op::Or, Op::And]), a.clone(), Expr::Not(b(a)))
        }
        2 => {
            let a = bool_e(rng);
            Expr::bin(*rng.pick(&[Op::Or, Op::And]), Expr::Not(b(a.clone())), a)
        }
        3 | 4 if !int_cols.is_empty() => {
            let i = *rng.pick(&int_cols);
            let Ty::Int(w) = cols[i].1 else { unreachable!() };
            let k = *rng.pick(&[0i64, 1, 1, 0, -1]);
            let op = *rng.pick(&[Op::Mul, Op::Mul, Op::Div, Op::Mod, Op::Add, Op::Sub]);
            let l = Expr::Lit(Val::Int(w, k), cols[i].1, false);
            if rng.chance(1, 2) { Expr::bin(op, Expr::Col(i), l) } else { Expr::bin(op, l, Expr::Col(i)) }
        }
        5 => {
            let t = g.any_ty_pub(rng);
            let (l, r) = g.comparable_pair(rng, t, 1);
            Expr::Not(b(Expr::bin(*rng.pick(&[Op::Eq, Op::Ne, Op::Lt, Op::Le, Op::Gt, Op::Ge, Op::Distinct, Op::NotDistinct]), l, r)))
        }
        6 => Expr::Not(b(Expr::bin(*rng.pick(&[Op::And, Op::Or]), bool_e(rng), bool_e(rng)))),
        7 => {
            let t = g.any_ty_pub(rng);
            Expr::In(rng.chance(1, 2), b(g.expr(rng, t, 1)), vec![])
        }
        8 => {
            let t = g.any_ty_pub(rng);
            let n = 1 + rng.below(3) as usize;
            Expr::In(rng.chance(1, 2), b(Expr::Lit(Val::Null, t, false)), (0..n).map(|_| g.lit(rng, t)).collect())
        }
        9 | 10 if !int_cols.is_empty() => {
            // CAST / TRY_CAST of a column compared with a literal of the target type (unwrap_cast)
            let i = *rng.pick(&int_cols);
            let Ty::Int(w) = cols[i].1 else { unreachable!() };
            let w2 = *rng.pick(&[8u8, 16, 32, 64]);
            let k = *rng.pick(&[0i64, 1, 5, -1, int_max(w2), int_min(w2), int_max(w.min(w2)), int_max(w.min(w2)).wrapping_add(1).min(int_max(w2))]);
            let c = Expr::Cast { ty: Ty::Int(w2), try_: rng.chance(1, 2), implicit: false, e: b(Expr::Col(i)) };
            let l = Expr::Lit(Val::Int(w2, k), Ty::Int(w2), false);
            let op = *rng.pick(&Op::CMP);
            let cmp = if rng.chance(3, 4) { Expr::bin(op, c, l) } else { Expr::bin(op, l, c) };
            match rng.below(4) {
                0 => Expr::Not(b(cmp)),
                1 => Expr::Is(IsKind::Null, rng.chance(1, 2), b(cmp)),
                _ => cmp,
            }
        }
        11 if !int_cols.is_empty() => {
            // cast column IN (literals)
            let i = *rng.pick(&int_cols);
            let w2 = *rng.pick(&[8u8, 16, 32, 64]);
            let c = Expr::Cast { ty: Ty::Int(w2), try_: rng.chance(1, 2), implicit: false, e: b(Expr::Col(i)) };
            let n = 1 + rng.below(3) as usize;
            Expr::In(rng.chance(1, 2), b(c), (0..n).map(|_| g.lit(rng, Ty::Int(w2))).collect())
        }
        12 | 13 => {
            // a = l1 OR a = l2 …, a IN (..) AND a [NOT] IN (..)
            let i = any_col(rng);
            let t = cols[i].1;
            let mk_in = |rng: &mut Rng| {
                let n = 1 + rng.below(3) as usize;
                Expr::In(rng.chance(1, 3), b(Expr::Col(i)), (0..n).map(|_| g.lit(rng, t)).collect())
            };
            match rng.below(3) {
                0 => Expr::bin(Op::Or, Expr::bin(Op::Eq, Expr::Col(i), g.lit(rng, t)), Expr::bin(Op::Eq, Expr::Col(i), g.lit(rng, t))),
                1 => Expr::bin(Op::And, mk_in(rng), mk_in(rng)),
                _ => Expr::bin(Op::Or, mk_in(rng), mk_in(rng)),
            }
        }
        14 => {
            // CASE with literal conditions
            let t = g.any_ty_pub(rng);
            let c = |rng: &mut Rng| if rng.chance(1, 2) { Expr::Lit(Val::Bool(rng.chance(1, 2)), Ty::Bool, false) } else { g.expr(rng, Ty::Bool, 1) };
            let n = 1 + rng.below(3) as usize;
            Expr::Case(None, (0..n).map(|_| (c(rng), g.expr(rng, t, 1))).collect(), if rng.chance(1, 2) { Some(b(g.expr(rng, t, 1))) } else { None })
        }
        15 => {
            // boolean CASE (rewritten into AND/OR)
            let n = 1 + rng.below(2) as usize;
            let bl = |rng: &mut Rng| if rng.chance(1, 2) { Expr::Lit(rng.pick(&[Val::Bool(true), Val::Bool(false), Val::Null]).clone(), Ty::Bool, false) } else { g.expr(rng, Ty::Bool, 1) };
            Expr::Case(None, (0..n).map(|_| (g.expr(rng, Ty::Bool, 1), bl(rng))).collect(), if rng.chance(2, 3) { Some(b(bl(rng))) } else { None })
        }
        16 => {
            let a = bool_e(rng);
            let l = Expr::Lit(rng.pick(&[Val::Bool(true), Val::Bool(false), Val::Null]).clone(), Ty::Bool, false);
            let op = *rng.pick(&[Op::Eq, Op::Ne, Op::And, Op::Or, Op::Distinct, Op::NotDistinct]);
            if rng.chance(1, 2) { Expr::bin(op, a, l) } else { Expr::bin(op, l, a) }
        }
        17 => {
            // absorption / common factors
            let (a, c, d) = (bool_e(rng), bool_e(rng), bool_e(rng));
            match rng.below(4) {
                0 => Expr::bin(Op::Or, a.clone(), Expr::and(a, c)),
                1 => Expr::and(a.clone(), Expr::bin(Op::Or, a, c)),
                2 => Expr::bin(Op::Or, Expr::and(a.clone(), c), Expr::and(a, d)),
                _ => Expr::and(Expr::and(a.clone(), c), a),
            }
        }
        18 => {
            let t = if rng.chance(2, 3) { Ty::Int(64) } else { Ty::Str };
            Expr::Between(rng.chance(1, 2), b(g.expr(rng, t, 1)), b(g.lit(rng, t)), b(g.lit(rng, t)))
        }
        19 if !int_cols.is_empty() => {
            // A >= c AND A <= c ; A = L1 AND A != L2
            let i = *rng.pick(&int_cols);
            let t = cols[i].1;
            let (l1, l2) = (g.lit(rng, t), g.lit(rng, t));
            match rng.below(2) {
                0 => Expr::and(Expr::bin(Op::Ge, Expr::Col(i), l1.clone()), Expr::bin(Op::Le, Expr::Col(i), l1)),
                _ => Expr::and(Expr::bin(Op::Eq, Expr::Col(i), l1), Expr::bin(Op::Ne, Expr::Col(i), l2)),
            }
        }
        20 => {
            let t = g.any_ty_pub(rng);
            Expr::Is(IsKind::Null, rng.chance(1, 2), b(g.expr(rng, t, 1)))
        }
        _ => {
            // LIKE with constant patterns
            let pats = ["%", "a%", "%a", "a", "", "a_", "%%", "A\\%"];
            Expr::Like { neg: rng.chance(1, 3), ci: false, e: b(g.expr(rng, Ty::Str, 1)), pat: b(Expr::Lit(Val::Str(rng.pick(&pats).replace('\\', "")), Ty::Str, false)), esc: None }
        }
    }
}

fn embed(rng: &mut Rng, g: &ExprGen, e: Expr, ty_is_bool: bool) -> Expr {
    // put the bait under a few more operators so that rules have to compose
    if !ty_is_bool {
        return e;
    }
    match rng.below(6) {
        0 => Expr::Not(Box::new(e)),
        1 => Expr::and(e, g.expr(rng, Ty::Bool, 1)),
        2 => Expr::bin(Op::Or, g.expr(rng, Ty::Bool, 1), e),
        3 => Expr::Is(*rng.pick(&[IsKind::True, IsKind::False, IsKind::Unknown, IsKind::Null]), rng.chance(1, 2), Box::new(e)),
        _ => e,
    }
}

pub fn run(run: &mut Run, args: &Args) {
    let mut rng = Rng::new(args.seed);
    hutil::quiet_panics();
    // ---- Operator::negate / Operator::swap tables
    let ops: [(Operator, &str); 16] = [
        (Operator::Plus, "add"),
        (Operator::Minus, "sub"),
        (Operator::Multiply, "mul"),
        (Operator::Divide, "div"),
        (Operator::Modulo, "mod"),
        (Operator::Eq, "eq"),
        (Operator::NotEq, "ne"),
        (Operator::Lt, "lt"),
        (Operator::LtEq, "le"),
        (Operator::Gt, "gt"),
        (Operator::GtEq, "ge"),
        (Operator::And, "and"),
        (Operator::Or, "or"),
        (Operator::IsDistinctFrom, "distinct"),
        (Operator::IsNotDistinctFrom, "notdistinct"),
        (Operator::StringConcat, "concat"),
    ];
    let name_of = |o: Option<Operator>| -> String {
        match o {
            None => "none".into(),
            Some(o) => ops.iter().find(|(x, _)| *x == o).map(|(_, n)| n.to_string()).unwrap_or_else(|| format!("other:{o:?}")),
        }
    };
    for (o, n) in &ops {
        run.case("negate", n, &name_of(o.negate()), true);
        run.case("swap", n, &name_of(o.swap()), true);
    }

    let n = run.budget(2500, 60_000);
    for i in 0..n {
        let (cols, nullable) = gen_cols(&mut rng);
        let infos: Vec<ColInfo> = cols.iter().map(|(n, t)| ColInfo { sql: n.clone(), ty: *t }).collect();
        let g = ExprGen { cols: &infos, outer: &[], err_pct: 15, allow_like: true };
        let e = if rng.chance(1, 2) {
            let raw = bait(&mut rng, &g, &cols);
            let is_bool = {
                use datafusion_expr::ExprSchemable;
                let s0 = DFSchema::try_from(schema_of(&cols).as_ref().clone()).unwrap();
                matches!(raw.df(&cols).get_type(&s0), Ok(arrow::datatypes::DataType::Boolean))
            };
            embed(&mut rng, &g, raw, is_bool)
        } else {
            let ty = if rng.chance(2, 3) { Ty::Bool } else { gen_ty(&mut rng) };
            let dd = 1 + rng.below(if run.thorough() { 4 } else { 3 }) as u32;
            g.expr(&mut rng, ty, dd)
        };
        // `embed` may have wrapped a non-boolean bait in boolean operators: keep only well-typed trees
        let schema = schema_with_nullability(&cols, &nullable);
        let dfs = Arc::new(DFSchema::try_from(schema.as_ref().clone()).unwrap());
        let de = e.df(&cols);
        use datafusion_expr::ExprSchemable;
        if de.get_type(dfs.as_ref()).is_err() {
            run.count("ill-typed-skipped");
            continue;
        }
        let doms: Vec<Vec<Val>> = cols.iter().zip(&nullable).map(|((_, t), nl)| domain_of(*t).into_iter().filter(|v| *nl || *v != Val::Null).collect()).collect();
        let mut rows = all_rows(&doms);
        for _ in 0..6 {
            rows.push(cols.iter().zip(&nullable).map(|((_, t), nl)| gen_val(&mut rng, *t, if *nl { 15 } else { 0 })).collect());
        }
        let ctx = SimplifyContext::builder().with_schema(Arc::clone(&dfs)).build();
        let simplifier = ExprSimplifier::new(ctx);
        let de2 = de.clone();
        let simp = hutil::catch(std::panic::AssertUnwindSafe(move || simplifier.simplify(de2)));
        let simp = match simp {
            Ok(Ok(s)) => s,
            Ok(Err(m)) => {
                // the simplifier may reject an expression only by failing the whole planning: a
                // failure here on an expression that evaluates is reported through the oracle below
                run.count("simplify:error");
                if run.notes.len() < 8 {
                    run.note(&format!("simplify failed on {}: {}", e.sexp(), m.to_string().chars().take(200).collect::<String>()));
                }
                continue;
            }
            Err(p) => {
                run.oracle(false, &format!("simplify panic {}", e.sexp()), &p);
                continue;
            }
        };
        let changed = simp != de;
        run.count(if changed { "simplify:changed" } else { "simplify:unchanged" });
        let mut cs = std::collections::BTreeSet::new();
        e.constructs(&mut cs);
        for c in &cs {
            run.count(&format!("construct:{c}"));
        }
        // ---- model: exhaustive equivalence on the domain
        let orig_s = e.sexp();
        match export_df(&simp, dfs.as_ref()) {
            Ok(simp_s) => {
                run.case("equiv", &format!("({orig_s} {simp_s} {})", rows_sexp(&rows)), "ok", changed);
            }
            Err(what) => {
                run.count(&format!("export-unsupported:{what}"));
            }
        }
        // ---- implementation-level oracle: physical evaluation of input and output
        let props = datafusion_expr::execution_props::ExecutionProps::new();
        let pctx = datafusion_expr::physical_planning_context::PhysicalPlanningContext::default();
        let p0 = datafusion_physical_expr::create_physical_expr(&de, dfs.as_ref(), &props, &pctx);
        let p1 = datafusion_physical_expr::create_physical_expr(&simp, dfs.as_ref(), &props, &pctx);
        let (p0, p1) = match (p0, p1) {
            (Ok(a), Ok(b)) => (a, b),
            (Err(_), _) => {
                run.count("physical:orig-rejected");
                continue;
            }
            (Ok(_), Err(m)) => {
                run.oracle(false, &format!("simplified-not-plannable {orig_s}"), &format!("simplified {simp} : {m}"));
                continue;
            }
        };
        let sig = format!("simplify#{i} {orig_s} => {simp}");
        check_same(run, &sig, &cols, &schema, &rows, &p0, &p1, "ExprSimplifier");
        // data type must be preserved
        if let (Ok(t0), Ok(t1)) = (p0.data_type(schema.as_ref()), p1.data_type(schema.as_ref())) {
            let same = ty_of_arrow(&t0) == ty_of_arrow(&t1) || t0 == t1 || t0 == arrow::datatypes::DataType::Null;
            run.oracle(same, &format!("type-changed {orig_s} => {simp}"), &format!("{t0} became {t1}"));
        }
        // ---- PhysicalExprSimplifier
        let ps = PhysicalExprSimplifier::new(schema.as_ref());
        let p0c = Arc::clone(&p0);
        match hutil::catch(std::panic::AssertUnwindSafe(move || ps.simplify(p0c))) {
            Ok(Ok(p2)) => {
                let ch = format!("{p2}") != format!("{p0}");
                run.count(if ch { "physical-simplify:changed" } else { "physical-simplify:unchanged" });
                check_same(run, &format!("physical-simplify#{i} {orig_s} => {p2}"), &cols, &schema, &rows, &p0, &p2, "PhysicalExprSimplifier");
            }
            Ok(Err(m)) => {
                run.count("physical-simplify:error");
                let _ = m;
            }
            Err(p) => run.oracle(false, &format!("physical-simplify panic {orig_s}"), &p),
        }
    }
}

/// wherever `p0` evaluates, `p1` must evaluate to the same value (row by row)
fn check_same(run: &mut Run, sig: &str, cols: &[(String, Ty)], schema: &Arc<Schema>, rows: &[Vec<Val>], p0: &Arc<dyn PhysicalExpr>, p1: &Arc<dyn PhysicalExpr>, who: &str) {
    let mk = |rs: &[Vec<Val>]| {
        let b = batch_of(cols, rs);
        arrow::record_batch::RecordBatch::try_new(Arc::clone(schema), b.columns().to_vec()).unwrap_or(b)
    };
    let whole = mk(rows);
    let r0 = eval_batch(p0, &whole);
    match r0 {
        Ok(v0) => {
            let r1 = eval_batch(p1, &whole);
            let ok = matches!(&r1, Ok(v1) if *v1 == v0);
            let detail = match &r1 {
                Ok(v1) => {
                    let j = v0.iter().zip(v1).position(|(a, b)| a != b).unwrap_or(0);
                    format!("{who}: row {} : input evaluates to {} , output to {}", row_sexp(&rows[j.min(rows.len() - 1)]), v0[j.min(v0.len() - 1)].sexp(), v1.get(j).map(|v| v.sexp()).unwrap_or_default())
                }
                Err(m) => format!("{who}: input evaluates on all {} rows, output fails: {}", rows.len(), m.chars().take(200).collect::<String>()),
            };
            run.oracle(ok, sig, &detail);
        }
        Err(_) => {
            // the input fails somewhere in the batch: go row by row
            let mut bad: Option<String> = None;
            for r in rows {
                let one = mk(std::slice::from_ref(r));
                if let Ok(v0) = eval_batch(p0, &one) {
                    match eval_batch(p1, &one) {
                        Ok(v1) if v1 == v0 => {}
                        Ok(v1) => {
                            bad = Some(format!("{who}: row {} : input evaluates to {} , output to {}", row_sexp(r), v0[0].sexp(), v1[0].sexp()));
                            break;
                        }
                        Err(m) => {
                            bad = Some(format!("{who}: row {} : input evaluates to {} , output fails: {}", row_sexp(r), v0[0].sexp(), m.chars().take(200).collect::<String>()));
                            break;
                        }
                    }
                }
            }
            run.count("oracle:row-by-row");
            run.oracle(bad.is_none(), sig, &bad.unwrap_or_default());
        }
    }
}
