//! C33 — expression evaluation strategies agree with row-by-row SQL semantics.
//!
//! Real `create_physical_expr(..).evaluate(batch)` / `.evaluate_selection(batch, mask)` on generated
//! typed expressions over an exhaustive small-domain table (+ random rows), judged row by row by
//! the Lean `eval` (`evalrows`, `evalsel`); the IN-list static filters driven directly at list
//! sizes straddling every strategy threshold and compared with the Lean model of the chosen
//! strategy (`static`); CASE with failing branches guarded by conditions compared with the Lean
//! model of the sequential-mask strategy (`casebatch`).
//! Implementation-level oracles (no model): `evaluate_selection` on the selected rows equals
//! `evaluate` on the filtered batch; batch evaluation equals single-row evaluation value by value.
use std::sync::Arc;

use arrow::array::{Array, ArrayRef, BooleanArray, RecordBatch};
use datafusion_common::DFSchema;
use datafusion_expr::execution_props::ExecutionProps;
use datafusion_expr::physical_planning_context::PhysicalPlanningContext;
use datafusion_physical_expr::{PhysicalExpr, create_physical_expr};
use hutil::{Args, Rng, Run};

use crate::sqlgen::*;

pub fn physical(e: &Expr, cols: &[(String, Ty)]) -> Result<Arc<dyn PhysicalExpr>, String> {
    let schema = schema_of(cols);
    let dfs = DFSchema::try_from(schema.as_ref().clone()).map_err(|e| e.to_string())?;
    let de = e.df(cols);
    let r = hutil::catch(std::panic::AssertUnwindSafe(|| create_physical_expr(&de, &dfs, &ExecutionProps::new(), &PhysicalPlanningContext::default())));
    match r {
        Ok(Ok(p)) => Ok(p),
        Ok(Err(e)) => Err(e.to_string()),
        Err(p) => Err(format!("PANIC: {p}")),
    }
}

pub fn eval_batch(p: &Arc<dyn PhysicalExpr>, batch: &RecordBatch) -> Result<Vec<Val>, String> {
    let p = Arc::clone(p);
    let r = hutil::catch(std::panic::AssertUnwindSafe(|| p.evaluate(batch).and_then(|v| v.into_array(batch.num_rows()))));
    match r {
        Ok(Ok(a)) => vals_of_array(a.as_ref()),
        Ok(Err(e)) => Err(e.to_string()),
        Err(p) => Err(format!("PANIC: {p}")),
    }
}

fn eval_sel(p: &Arc<dyn PhysicalExpr>, batch: &RecordBatch, mask: &BooleanArray) -> Result<Vec<Val>, String> {
    let p = Arc::clone(p);
    let r = hutil::catch(std::panic::AssertUnwindSafe(|| p.evaluate_selection(batch, mask).and_then(|v| v.into_array(batch.num_rows()))));
    match r {
        Ok(Ok(a)) => vals_of_array(a.as_ref()),
        Ok(Err(e)) => Err(e.to_string()),
        Err(p) => Err(format!("PANIC: {p}")),
    }
}

pub fn vals_sexp(vs: &[Val]) -> String {
    row_sexp(vs)
}

pub fn impl_sexp(r: &Result<Vec<Val>, String>) -> String {
    match r {
        Ok(vs) => format!("(ok {})", vals_sexp(vs)),
        Err(m) => format!("(err {})", err_class(m)),
    }
}

/// columns + exhaustive small-domain rows (+ a few random rows)
pub fn gen_table(rng: &mut Rng, max_cols: usize) -> (Vec<(String, Ty)>, Vec<Vec<Val>>) {
    let nc = 1 + rng.below(max_cols as u64) as usize;
    let cols: Vec<(String, Ty)> = (0..nc).map(|i| (format!("c{i}"), gen_ty(rng))).collect();
    let doms: Vec<Vec<Val>> = cols.iter().map(|(_, t)| domain_of(*t)).collect();
    let mut rows = all_rows(&doms);
    for _ in 0..8 {
        rows.push(cols.iter().map(|(_, t)| gen_val(rng, *t, 15)).collect());
    }
    (cols, rows)
}

/// an IN list with an element that contains a CASE (the engine evaluates the list on an EMPTY
/// batch to decide whether it is constant; a CASE then yields its ELSE value as a scalar)
pub fn inlist_const_case(e: &Expr) -> bool {
    let mut hit = false;
    let _ = e.map(&mut |x: Expr| {
        if let Expr::In(_, _, l) = &x {
            for el in l {
                let mut cs = std::collections::BTreeSet::new();
                el.constructs(&mut cs);
                if cs.contains("case-searched") || cs.contains("case-simple") {
                    hit = true;
                }
            }
        }
        x
    });
    hit
}

fn neg_of_constant(e: &Expr) -> bool {
    let mut hit = false;
    let _ = e.map(&mut |x: Expr| {
        if let Expr::Neg(a) = &x {
            if !a.has_col() {
                hit = true;
            }
        }
        x
    });
    hit
}

fn generic(run: &mut Run, rng: &mut Rng) {
    let n = run.budget(900, 30_000);
    for i in 0..n {
        let (cols, rows) = gen_table(rng, 3);
        let infos: Vec<ColInfo> = cols.iter().map(|(n, t)| ColInfo { sql: n.clone(), ty: *t }).collect();
        let g = ExprGen { cols: &infos, outer: &[], err_pct: 20, allow_like: true };
        let ty = if rng.chance(1, 2) { Ty::Bool } else { gen_ty(rng) };
        let depth = 1 + rng.below(if run.thorough() { 4 } else { 3 }) as u32;
        let e = g.expr(rng, ty, depth).lower_coalesce();
        let mut cs = std::collections::BTreeSet::new();
        e.constructs(&mut cs);
        for c in &cs {
            run.count(&format!("construct:{c}"));
        }
        let p = match physical(&e, &cols) {
            Ok(p) => p,
            Err(m) => {
                run.count("physical-planning-rejected");
                if run.notes.len() < 8 {
                    run.note(&format!("create_physical_expr rejected {}: {}", e.sexp(), m.chars().take(200).collect::<String>()));
                }
                continue;
            }
        };
        let batch = batch_of(&cols, &rows);
        let res = eval_batch(&p, &batch);
        let varies = match &res {
            Ok(vs) => vs.iter().any(|v| *v != vs[0]),
            Err(_) => true,
        };
        run.count(if res.is_ok() { "batch:ok" } else { "batch:err" });
        if let Err(m) = &res {
            if !["div0", "overflow", "cast"].contains(&err_class(m)) {
                eprintln!("EVALERR {} :: {}", e.sexp(), m.chars().take(300).collect::<String>());
            }
        }
        if let Err(m) = &res {
            if m.starts_with("PANIC") {
                run.oracle(false, &format!("evaluate panic {}", e.sexp()), m);
                continue;
            }
        }
        // known finding: a constant CASE inside an IN list is evaluated on an EMPTY batch when the
        // static filter is built, where it yields its ELSE value
        // known finding: unary minus of a SCALAR uses the checked `ScalarValue::arithmetic_negate`
        // (overflow error on MIN) while the array kernel `neg_wrapping` wraps
        let shape = if inlist_const_case(&e) {
            "-inlist-case-element"
        } else if neg_of_constant(&e) {
            "-neg-of-constant"
        } else {
            ""
        };
        if !shape.is_empty() {
            run.count(&format!("shape:{}", &shape[1..]));
        }
        run.case(&format!("evalrows{shape}"), &format!("({} {} {})", e.sexp(), rows_sexp(&rows), impl_sexp(&res)), "ok", varies);

        // ---- selection
        let mask_vals: Vec<Option<bool>> = match rng.below(5) {
            0 => rows.iter().map(|_| Some(true)).collect(),
            1 => rows.iter().map(|_| Some(false)).collect(),
            _ => rows.iter().map(|_| match rng.below(8) { 0 => None, 1..=4 => Some(true), _ => Some(false) }).collect(),
        };
        let mask = BooleanArray::from(mask_vals.clone());
        let sel = eval_sel(&p, &batch, &mask);
        let mask_s = format!("({})", mask_vals.iter().map(|m| if *m == Some(true) { "t" } else { "f" }).collect::<Vec<_>>().join(" "));
        run.case(&format!("evalsel{shape}"), &format!("({} {} {} {})", e.sexp(), rows_sexp(&rows), mask_s, impl_sexp(&sel)), "ok", varies);
        // oracle: selection == evaluation of the filtered batch (engine against itself)
        let sel_rows: Vec<Vec<Val>> = rows.iter().zip(&mask_vals).filter(|(_, m)| **m == Some(true)).map(|(r, _)| r.clone()).collect();
        let filtered = if sel_rows.is_empty() { Ok(vec![]) } else { eval_batch(&p, &batch_of(&cols, &sel_rows)) };
        let ok = match (&sel, &filtered) {
            (Ok(s), Ok(f)) => {
                let picked: Vec<&Val> = s.iter().zip(&mask_vals).filter(|(_, m)| **m == Some(true)).map(|(v, _)| v).collect();
                picked.len() == f.len() && picked.iter().zip(f).all(|(a, b)| **a == *b)
            }
            (Err(_), Err(_)) => true,
            // nothing selected: evaluate_selection must not fail
            (Err(_), Ok(_)) => false,
            (Ok(_), Err(_)) => false,
        };
        run.oracle(ok, &format!("evaluate_selection#{i} {} mask={mask_s}", e.sexp()), &format!("selection result {:?} vs filtered-batch result {:?}", sel.as_ref().map(|v| vals_sexp(v)), filtered.as_ref().map(|v| vals_sexp(v))));
        // oracle: batch vs single-row evaluation, value by value (on a sample of rows)
        if let Ok(bv) = &res {
            for k in 0..6 {
                let j = (i as usize * 7 + k * 13) % rows.len();
                if let Ok(sv) = eval_batch(&p, &batch_of(&cols, &rows[j..j + 1])) {
                    run.oracle(sv[0] == bv[j], &format!("batch-vs-row {} row={}", e.sexp(), row_sexp(&rows[j])), &format!("batch value {} single-row value {}", bv[j].sexp(), sv[0].sexp()));
                }
            }
        }
    }
}

/// IN-list static filters at every strategy threshold
fn static_filters(run: &mut Run, rng: &mut Rng) {
    // (width, MAX_LIST_LEN of the branchless filter, fallback)
    let specs: [(u8, usize, &str); 4] = [(8, 16, "bitmap"), (16, 8, "bitmap"), (32, 32, "hashset"), (64, 16, "hashset")];
    let reps = run.budget(6, 60);
    for (w, max, fallback) in specs {
        for len in [1usize, 2, max - 1, max, max + 1, max + 2, 2 * max + 3] {
            for with_null in [false, true] {
                for negated in [false, true] {
                    for _ in 0..reps {
                        let ty = Ty::Int(w);
                        // distinct non-null values (a duplicate would not change the non-null *count* semantics
                        // of the threshold in an interesting way; duplicates are added separately below)
                        let mut vals: Vec<i64> = vec![];
                        while vals.len() < len {
                            let v = match rng.below(6) {
                                0 => int_min(w),
                                1 => int_max(w),
                                2 => 0,
                                3 => -1,
                                _ => rng.range(int_min(w).max(-200), int_max(w).min(200)),
                            };
                            if !vals.contains(&v) {
                                vals.push(v);
                            }
                        }
                        let mut hay: Vec<Val> = vals.iter().map(|v| Val::Int(w, *v)).collect();
                        if with_null {
                            let pos = rng.below(hay.len() as u64 + 1) as usize;
                            hay.insert(pos, Val::Null);
                        }
                        if rng.chance(1, 4) {
                            let d = hay[rng.below(hay.len() as u64) as usize].clone();
                            hay.push(d);
                        }
                        let nn = {
                            let mut d: Vec<&Val> = hay.iter().filter(|v| **v != Val::Null).collect();
                            d.len()
                        };
                        let strategy = if nn <= max { "branchless".to_string() } else { fallback.to_string() };
                        let mut needles: Vec<Val> = domain_of(ty);
                        needles.extend(vals.iter().take(4).map(|v| Val::Int(w, *v)));
                        needles.push(Val::Int(w, rng.range(int_min(w).max(-300), int_max(w).min(300))));
                        let cols = vec![("c0".to_string(), ty)];
                        let e = Expr::In(negated, Box::new(Expr::Col(0)), hay.iter().map(|v| Expr::Lit(v.clone(), ty, false)).collect());
                        let p = match physical(&e, &cols) {
                            Ok(p) => p,
                            Err(m) => {
                                run.oracle(false, &format!("in-list planning w={w} len={len}"), &m);
                                continue;
                            }
                        };
                        let rows: Vec<Vec<Val>> = needles.iter().map(|v| vec![v.clone()]).collect();
                        let res = eval_batch(&p, &batch_of(&cols, &rows));
                        let ans = match &res {
                            Ok(vs) => vs.iter().map(|v| match v { Val::Bool(true) => "t", Val::Bool(false) => "f", Val::Null => "u", _ => "?" }).collect::<Vec<_>>().join(" "),
                            Err(m) => format!("err {}", err_class(m)),
                        };
                        run.count(&format!("static:{strategy}:w{w}"));
                        let hs = hay.iter().map(|v| match v { Val::Int(_, n) => n.to_string(), _ => "null".into() }).collect::<Vec<_>>().join(" ");
                        let ns = needles.iter().map(|v| match v { Val::Int(_, n) => n.to_string(), _ => "null".into() }).collect::<Vec<_>>().join(" ");
                        run.case("static", &format!("({strategy} {w} {} ({hs}) ({ns}))", if negated { "t" } else { "f" }), &ans, true);
                    }
                }
            }
        }
    }
}

/// the element types of the wide IN-list section
#[derive(Clone, Copy, Debug, PartialEq)]
enum LTy {
    I(u8),
    U(u8),
    Dec,
    Utf8,
    Utf8View,
}

impl LTy {
    fn arrow(&self) -> arrow::datatypes::DataType {
        use arrow::datatypes::DataType as D;
        match self {
            LTy::I(8) => D::Int8,
            LTy::I(16) => D::Int16,
            LTy::I(32) => D::Int32,
            LTy::I(_) => D::Int64,
            LTy::U(8) => D::UInt8,
            LTy::U(16) => D::UInt16,
            LTy::U(32) => D::UInt32,
            LTy::U(_) => D::UInt64,
            LTy::Dec => D::Decimal128(20, 0),
            LTy::Utf8 => D::Utf8,
            LTy::Utf8View => D::Utf8View,
        }
    }
    fn min(&self) -> i128 {
        match self {
            LTy::I(w) => -(1i128 << (w - 1)),
            LTy::U(_) => 0,
            LTy::Dec => -99_999_999_999_999_999_999i128,
            _ => 0,
        }
    }
    fn max(&self) -> i128 {
        match self {
            LTy::I(w) => (1i128 << (w - 1)) - 1,
            LTy::U(w) => (1i128 << w) - 1,
            LTy::Dec => 99_999_999_999_999_999_999i128,
            _ => 100_000,
        }
    }
    /// strings: value n ↦ "" for 0 (the placeholder a NULL slot would hold), "s<n>" otherwise
    fn scalar(&self, v: Option<i128>) -> datafusion_common::ScalarValue {
        use datafusion_common::ScalarValue as S;
        let st = |n: i128| if n == 0 { String::new() } else { format!("s{n}") };
        match self {
            LTy::I(8) => S::Int8(v.map(|n| n as i8)),
            LTy::I(16) => S::Int16(v.map(|n| n as i16)),
            LTy::I(32) => S::Int32(v.map(|n| n as i32)),
            LTy::I(_) => S::Int64(v.map(|n| n as i64)),
            LTy::U(8) => S::UInt8(v.map(|n| n as u8)),
            LTy::U(16) => S::UInt16(v.map(|n| n as u16)),
            LTy::U(32) => S::UInt32(v.map(|n| n as u32)),
            LTy::U(_) => S::UInt64(v.map(|n| n as u64)),
            LTy::Dec => S::Decimal128(v, 20, 0),
            LTy::Utf8 => S::Utf8(v.map(st)),
            LTy::Utf8View => S::Utf8View(v.map(st)),
        }
    }
    /// (branchless threshold on the number of non-NULL elements, model of the filter beyond it)
    fn strategy(&self, non_null: usize) -> (String, u32) {
        let (max, fallback, w) = match self {
            LTy::I(8) | LTy::U(8) => (16, "bitmap", 8),
            LTy::I(16) | LTy::U(16) => (8, "bitmap", 16),
            LTy::I(32) | LTy::U(32) => (32, "hashset", 32),
            LTy::I(_) | LTy::U(_) => (16, "hashset", 64),
            LTy::Dec => (4, "hashset", 128),
            _ => (0, "hashset", 0), // ArrayStaticFilter: a hash set whatever the length
        };
        if non_null <= max { ("branchless".into(), w) } else { (fallback.into(), w) }
    }
}

/// IN / NOT IN over every primitive family the static filters specialise, list lengths around and
/// far beyond every branchless threshold, with and without NULL elements, and probes that include
/// 0 / "" (the placeholder value stored under a NULL slot of a planner-built list), the type's
/// MIN and MAX, NULL, list members and a non-member.  Lists avoid 0 half of the time so that the
/// probe 0 is a NON-member next to a NULL element.
fn static_filters_wide(run: &mut Run, rng: &mut Rng) {
    use arrow::array::ArrayRef;
    use arrow::datatypes::{Field, Schema};
    let tys = [LTy::I(8), LTy::I(16), LTy::I(32), LTy::I(64), LTy::U(8), LTy::U(16), LTy::U(32), LTy::U(64), LTy::Dec, LTy::Utf8, LTy::Utf8View];
    let lens = [1usize, 4, 5, 16, 17, 32, 33, 40, 70];
    let reps = run.budget(2, 12);
    for ty in tys {
        for len in lens {
            for null_elems in [0usize, 1, 3] {
                for negated in [false, true] {
                    for rep in 0..reps {
                        let avoid_zero = rep % 2 == 0;
                        let (lo, hi) = (ty.min().max(-120), ty.max().min(120));
                        let mut vals: Vec<i128> = vec![];
                        // boundary members sometimes
                        if rng.chance(1, 3) {
                            vals.push(ty.max());
                        }
                        if rng.chance(1, 3) && ty.min() != 0 {
                            vals.push(ty.min());
                        }
                        let mut guard = 0;
                        while vals.len() < len && guard < 10_000 {
                            guard += 1;
                            let v = lo + rng.below((hi - lo + 1) as u64) as i128;
                            if (avoid_zero && v == 0) || vals.contains(&v) {
                                continue;
                            }
                            vals.push(v);
                        }
                        vals.truncate(len);
                        let mut hay: Vec<Option<i128>> = vals.iter().map(|v| Some(*v)).collect();
                        for _ in 0..null_elems {
                            let pos = rng.below(hay.len() as u64 + 1) as usize;
                            hay.insert(pos, None);
                        }
                        let non_null = vals.len();
                        let (strategy, w) = ty.strategy(non_null);
                        let mut needles: Vec<Option<i128>> = vec![None, Some(0), Some(ty.min()), Some(ty.max()), Some(1), Some(hi.min(119) + 1)];
                        needles.extend(vals.iter().take(3).map(|v| Some(*v)));
                        needles.push(Some(lo + rng.below((hi - lo + 1) as u64) as i128));
                        if matches!(ty, LTy::Utf8 | LTy::Utf8View) {
                            for n in needles.iter_mut() {
                                if let Some(v) = n {
                                    *v = (*v).max(0);
                                }
                            }
                        }
                        // build the real expression and batch
                        let schema = Arc::new(Schema::new(vec![Field::new("c0", ty.arrow(), true)]));
                        let dfs = DFSchema::try_from(schema.as_ref().clone()).unwrap();
                        let list: Vec<datafusion_expr::Expr> = hay.iter().map(|v| datafusion_expr::Expr::Literal(ty.scalar(*v), None)).collect();
                        let de = datafusion_expr::in_list(datafusion_expr::col("c0"), list, negated);
                        let p = match create_physical_expr(&de, &dfs, &ExecutionProps::new(), &PhysicalPlanningContext::default()) {
                            Ok(p) => p,
                            Err(m) => {
                                run.oracle(false, &format!("in-list planning {ty:?} len={len}"), &m.to_string());
                                continue;
                            }
                        };
                        let col: ArrayRef = match datafusion_common::ScalarValue::iter_to_array(needles.iter().map(|v| ty.scalar(*v))) {
                            Ok(a) => a,
                            Err(m) => {
                                run.oracle(false, &format!("needle array {ty:?}"), &m.to_string());
                                continue;
                            }
                        };
                        let batch = RecordBatch::try_new(Arc::clone(&schema), vec![col]).unwrap();
                        let show = |r: Result<Vec<Val>, String>| match r {
                            Ok(vs) => vs.iter().map(|v| match v { Val::Bool(true) => "t", Val::Bool(false) => "f", Val::Null => "u", _ => "?" }).collect::<Vec<_>>().join(" "),
                            Err(m) => format!("err {}", err_class(&m)),
                        };
                        let whole = show(eval_batch(&p, &batch));
                        run.count(&format!("wide:{strategy}:{ty:?}"));
                        if null_elems > 0 && !vals.contains(&0) {
                            run.count("wide:null-element-and-probe-equal-to-placeholder");
                        }
                        let hs = hay.iter().map(|v| v.map(|n| n.to_string()).unwrap_or("null".into())).collect::<Vec<_>>().join(" ");
                        let ns = needles.iter().map(|v| v.map(|n| n.to_string()).unwrap_or("null".into())).collect::<Vec<_>>().join(" ");
                        // the bitmap model is indexed by the w-bit pattern; every other filter is a set
                        let model_strategy = if strategy == "bitmap" { "bitmap" } else if strategy == "branchless" { "branchless" } else { "hashset" };
                        run.case("static", &format!("({model_strategy} {w} {} ({hs}) ({ns}))", if negated { "t" } else { "f" }), &whole, true);
                        // engine against itself: every needle alone in a 1-row batch
                        let mut single = vec![];
                        for i in 0..needles.len() {
                            single.push(show(eval_batch(&p, &batch.slice(i, 1))));
                        }
                        let single = single.join(" ");
                        run.oracle(single == whole, &format!("in-list batch-vs-row {ty:?} neg={negated} list=({hs}) needles=({ns})"), &format!("whole batch: {whole} ; row by row: {single}"));
                    }
                }
            }
        }
    }
}

/// AND / OR (and NOT above them) on batches of 5–64 rows whose left operand is NULL-free and
/// decides 80–100 % of the rows, the right operand being, on the undecided rows, all false /
/// all true / false+NULL / true+NULL / all NULL / mixed — the shapes that select `ReturnLeft`,
/// `ReturnRight`, `PreSelection` (uniform collapse or scatter) in `BinaryExpr::evaluate`; both
/// operand orders, both `evaluate` and `evaluate_selection`.
fn preselection(run: &mut Run, rng: &mut Rng) {
    let n = run.budget(1500, 40_000);
    let cols: Vec<(String, Ty)> = vec![("l".into(), Ty::Bool), ("r".into(), Ty::Bool), ("a".into(), Ty::Int(64))];
    for i in 0..n {
        let len = 5 + rng.below(60) as usize;
        let is_and = rng.chance(1, 2);
        // the deciding value of the left operand: false for AND, true for OR
        let decided_pct = *rng.pick(&[100u64, 95, 90, 85, 80, 80, 75, 50]);
        let mut undecided: Vec<bool> = (0..len).map(|_| rng.below(100) >= decided_pct).collect();
        if decided_pct < 100 && !undecided.iter().any(|u| *u) {
            undecided[rng.below(len as u64) as usize] = true;
        }
        let pattern = rng.below(7);
        let mut rows = vec![];
        for u in &undecided {
            let l = if *u { is_and } else { !is_and };
            let r = if *u {
                match pattern {
                    0 => Val::Bool(false),
                    1 => Val::Bool(true),
                    2 => if rng.chance(1, 2) { Val::Bool(false) } else { Val::Null },
                    3 => if rng.chance(1, 2) { Val::Bool(true) } else { Val::Null },
                    4 => Val::Null,
                    _ => match rng.below(3) { 0 => Val::Bool(false), 1 => Val::Bool(true), _ => Val::Null },
                }
            } else {
                match rng.below(3) { 0 => Val::Bool(false), 1 => Val::Bool(true), _ => Val::Null }
            };
            // `a` mirrors `l` as an integer so that the left operand can also be a comparison
            rows.push(vec![Val::Bool(l), r, Val::Int(64, if l { 1 } else { 0 })]);
        }
        let left = if rng.chance(1, 3) { Expr::bin(Op::Gt, Expr::Col(2), Expr::i64(0)) } else { Expr::Col(0) };
        let right = match rng.below(4) {
            0 => Expr::Not(Box::new(Expr::Not(Box::new(Expr::Col(1))))),
            1 => Expr::bin(Op::And, Expr::Col(1), Expr::Lit(Val::Bool(true), Ty::Bool, false)),
            _ => Expr::Col(1),
        };
        let op = if is_and { Op::And } else { Op::Or };
        let plain = matches!((&left, &right), (Expr::Col(0), Expr::Col(1)));
        let swapped = rng.chance(1, 4);
        let mut e = if swapped { Expr::bin(op, right, left) } else { Expr::bin(op, left, right) };
        match rng.below(6) {
            0 => e = Expr::Not(Box::new(e)),
            1 => e = Expr::bin(if is_and { Op::Or } else { Op::And }, e, Expr::Col(1)),
            2 => e = Expr::Is(*rng.pick(&[IsKind::True, IsKind::False, IsKind::Unknown, IsKind::Null]), rng.chance(1, 2), Box::new(e)),
            _ => {}
        }
        let wrapped = !matches!(&e, Expr::Bin(..)) || matches!(&e, Expr::Bin(_, a, _) if matches!(&**a, Expr::Bin(..)));
        let p = match physical(&e, &cols) {
            Ok(p) => p,
            Err(m) => {
                run.oracle(false, &format!("preselection planning {}", e.sexp()), &m);
                continue;
            }
        };
        let batch = batch_of(&cols, &rows);
        let res = eval_batch(&p, &batch);
        let n_und = undecided.iter().filter(|u| **u).count();
        run.count(&format!("presel:rhs-pattern-{pattern}"));
        run.count(if n_und == 0 { "presel:lhs-decides-all" } else if n_und * 5 <= len { "presel:lhs-decides>=80%" } else { "presel:lhs-decides<80%" });
        run.case("evalrows", &format!("({} {} {})", e.sexp(), rows_sexp(&rows), impl_sexp(&res)), "ok", true);
        // the strategy model itself, for the plain `l op r`
        if plain && !swapped && !wrapped {
            if let Ok(vs) = &res {
                let ans = vs.iter().map(|v| match v { Val::Bool(true) => "t", Val::Bool(false) => "f", _ => "u" }).collect::<Vec<_>>().join(" ");
                let rs = rows.iter().map(|r| format!("({} {})", if r[0] == Val::Bool(true) { "t" } else { "f" }, match &r[1] { Val::Bool(true) => "t", Val::Bool(false) => "f", _ => "u" })).collect::<Vec<_>>().join(" ");
                run.case("presel", &format!("({} ({rs}))", if is_and { "t" } else { "f" }), &ans, true);
            }
        }
        // evaluate_selection
        let mask_vals: Vec<Option<bool>> = rows.iter().map(|_| match rng.below(6) { 0 => None, 1 => Some(false), _ => Some(true) }).collect();
        let mask = BooleanArray::from(mask_vals.clone());
        let sel = eval_sel(&p, &batch, &mask);
        let mask_s = format!("({})", mask_vals.iter().map(|m| if *m == Some(true) { "t" } else { "f" }).collect::<Vec<_>>().join(" "));
        run.case("evalsel", &format!("({} {} {} {})", e.sexp(), rows_sexp(&rows), mask_s, impl_sexp(&sel)), "ok", true);
        // engine against itself: row by row on 1-row batches
        if let Ok(bv) = &res {
            let mut bad = None;
            for (j, r) in rows.iter().enumerate() {
                if let Ok(sv) = eval_batch(&p, &batch_of(&cols, std::slice::from_ref(r))) {
                    if sv[0] != bv[j] {
                        bad = Some(format!("row {j} {}: batch value {} , single-row value {}", row_sexp(r), bv[j].sexp(), sv[0].sexp()));
                        break;
                    }
                }
            }
            run.oracle(bad.is_none(), &format!("and-or batch-vs-row#{i} {} rows={}", e.sexp(), rows_sexp(&rows)), &bad.unwrap_or_default());
        }
    }
}

/// CASE whose THEN/ELSE expressions fail on rows that their WHEN excludes
fn guarded_case(run: &mut Run, rng: &mut Rng) {
    let n = run.budget(400, 8000);
    let cols: Vec<(String, Ty)> = vec![("a".into(), Ty::Int(64)), ("b".into(), Ty::Int(64))];
    let doms = vec![domain_of(Ty::Int(64)), domain_of(Ty::Int(64))];
    let all = all_rows(&doms);
    let a = || Expr::Col(0);
    let b = || Expr::Col(1);
    let lit = |n: i64| Expr::i64(n);
    for _ in 0..n {
        // guards and the failing expressions they protect
        let guards: Vec<(Expr, Expr)> = vec![
            (Expr::bin(Op::Ne, b(), lit(0)), Expr::bin(Op::Div, a(), b())),
            (Expr::bin(Op::Gt, b(), lit(0)), Expr::bin(Op::Mod, a(), b())),
            (Expr::bin(Op::Eq, b(), lit(0)), Expr::bin(Op::Add, a(), lit(1))),
            (Expr::Is(IsKind::Null, false, Box::new(b())), lit(-7)),
            (Expr::and(Expr::bin(Op::Ne, b(), lit(0)), Expr::bin(Op::Ne, b(), lit(-1))), Expr::bin(Op::Div, a(), b())),
            (
                Expr::bin(Op::Lt, a(), lit(0)),
                Expr::Cast { ty: Ty::Int(64), try_: false, implicit: false, e: Box::new(Expr::Cast { ty: Ty::Int(8), try_: false, implicit: false, e: Box::new(Expr::bin(Op::Div, lit(100), a())) }) },
            ),
            // an unguarded one: errors are expected and must be errors of the reference too
            (Expr::bin(Op::Ge, a(), lit(1)), Expr::bin(Op::Div, a(), b())),
        ];
        let k = 1 + rng.below(3) as usize;
        let mut whens = vec![];
        for _ in 0..k {
            whens.push(guards[rng.below(guards.len() as u64) as usize].clone());
        }
        let els = match rng.below(4) {
            0 => None,
            1 => Some(Box::new(lit(0))),
            2 => Some(Box::new(Expr::bin(Op::Div, lit(1), a()))),
            _ => Some(Box::new(a())),
        };
        let e = Expr::Case(None, whens.clone(), els.clone());
        // a random subset of the exhaustive domain, in random order: which rows are present decides
        // which branches select no row at all
        let mut rows: Vec<Vec<Val>> = all.iter().filter(|_| rng.chance(1, 3)).cloned().collect();
        if rng.chance(1, 3) {
            rows.retain(|r| r[1] != Val::Int(64, 0));
        }
        if rows.is_empty() {
            rows.push(all[0].clone());
        }
        let p = match physical(&e, &cols) {
            Ok(p) => p,
            Err(m) => {
                run.oracle(false, &format!("case planning {}", e.sexp()), &m);
                continue;
            }
        };
        let method = format!("{p:?}");
        let m = if k == 1 { "one-branch" } else { "multi-branch" };
        run.count(&format!("case:{m}"));
        let _ = method;
        let res = eval_batch(&p, &batch_of(&cols, &rows));
        let ans = match &res {
            Ok(vs) => format!("ok {}", vals_sexp(vs)),
            Err(_) => "err".to_string(),
        };
        run.count(if res.is_ok() { "case:ok" } else { "case:err" });
        let whens_s = whens.iter().map(|(w, t)| format!("({} {})", w.sexp(), t.sexp())).collect::<Vec<_>>().join(" ");
        run.case("casebatch", &format!("(({whens_s}) ({}) {})", els.as_ref().map(|e| e.sexp()).unwrap_or_default(), rows_sexp(&rows)), &ans, true);
    }
}

fn probe() {
    let i = |n: i64| Expr::i64(n);
    let b = |e: Expr| Box::new(e);
    let cols = vec![("c0".to_string(), Ty::Bool)];
    let rows = vec![vec![Val::Null], vec![Val::Bool(true)]];
    let case_m1 = Expr::Case(None, vec![(Expr::Is(IsKind::Null, true, b(i(-1))), i(-1))], Some(b(i(0))));
    let e1 = Expr::In(true, b(Expr::bin(Op::Mul, i(0), i(5))), vec![i(-1), case_m1.clone(), i(-9223372036854775807), i(9223372036854775807)]);
    let e1b = Expr::In(true, b(Expr::bin(Op::Mul, i(0), i(5))), vec![i(-1), i(-9223372036854775807), i(9223372036854775807)]);
    let e1c = Expr::In(true, b(i(0)), vec![i(-1), case_m1.clone()]);
    let e1d = Expr::In(false, b(i(0)), vec![i(-1), case_m1]);
    let e2 = Expr::Is(IsKind::Null, true, b(e1.clone()));
    let e3 = Expr::Between(false, b(Expr::Cast { ty: Ty::Int(64), try_: true, implicit: false, e: b(Expr::Lit(Val::Str("b".into()), Ty::Str, false)) }), b(i(10)), b(i(2)));
    let e4 = Expr::Between(false, b(Expr::Lit(Val::Null, Ty::Int(64), false)), b(i(10)), b(i(2)));
    let i32l = |n: i64| Expr::Lit(Val::Int(32, n), Ty::Int(32), false);
    let nn = |e: Expr| Expr::Is(IsKind::Null, true, Box::new(e));
    let inner = Expr::Case(None, vec![(nn(i(-1)), i(-1)), (nn(i(-1)), i(-1))], Some(b(i(0))));
    let a_ = Expr::In(true, b(Expr::bin(Op::Mul, i(0), i(5))), vec![i(-1), inner, i(-9223372036854775807), i(9223372036854775807)]);
    let b_ = Expr::bin(Op::Le, Expr::Case(None, vec![(nn(i32l(-2147483647)), i32l(-2147483647))], Some(b(i32l(3)))), Expr::bin(Op::Sub, i32l(-2147483647), Expr::Lit(Val::Null, Ty::Int(32), false)));
    let full = Expr::Case(None, vec![(nn(a_.clone()), a_.clone()), (nn(b_.clone()), b_.clone())], Some(b(e3.clone())));
    let two = Expr::Case(None, vec![(nn(a_.clone()), a_.clone())], Some(b(e3.clone())));
    let t = Expr::Lit(Val::Bool(true), Ty::Bool, false);
    let simple = Expr::Case(None, vec![(t.clone(), a_.clone()), (t.clone(), t.clone())], Some(b(e3.clone())));
    let simple2 = Expr::Case(None, vec![(t.clone(), t.clone()), (t.clone(), t.clone())], Some(b(Expr::Lit(Val::Bool(false), Ty::Bool, false))));
    let simple3 = Expr::Case(None, vec![(t.clone(), t.clone()), (t.clone(), t.clone())], Some(b(Expr::Lit(Val::Null, Ty::Bool, false))));
    let simple4 = Expr::Case(None, vec![(t.clone(), t.clone()), (Expr::Col(0), t.clone())], Some(b(Expr::Lit(Val::Bool(false), Ty::Bool, false))));
    for (n, e) in [("e1", e1), ("e1b", e1b), ("e1c", e1c), ("e1d", e1d), ("e2", e2), ("e3", e3), ("e4", e4), ("A", a_), ("B", b_), ("full", full), ("two", two), ("simple", simple), ("simple2", simple2), ("simple3", simple3), ("simple4", simple4)] {
        match physical(&e, &cols) {
            Ok(p) => println!("{n}: {} => {:?}   [{p}]", e.sexp(), eval_batch(&p, &batch_of(&cols, &rows)).map(|v| vals_sexp(&v))),
            Err(m) => println!("{n}: planning error {m}"),
        }
    }
}

pub fn run(run: &mut Run, args: &Args) {
    let mut rng = Rng::new(args.seed);
    hutil::quiet_panics();
    if std::env::var("C33_PROBE").is_ok() {
        probe();
        return;
    }
    generic(run, &mut rng);
    static_filters(run, &mut rng);
    guarded_case(run, &mut rng);
    static_filters_wide(run, &mut rng);
    preselection(run, &mut rng);
    let _: Option<ArrayRef> = None;
}
