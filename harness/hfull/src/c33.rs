//! C33 — expression evaluation strategies agree with row-by-row SQL semantics.
//!
//! Real `create_physical_expr(..).evaluate(batch)` / `.evaluate_selection(batch, mask)` on generated
//! typed expressions over an exhaustive small-domain table (+ random rows), judged row by row by
//! the Lean `eval` (`evalrows`, `evalsel`); the IN-list static filters driven directly at list
//! sizes straddling every strategy threshold and compared with the Lean model of the chosen
//! strategy (`static`); CASE with failing branches guarded by conditions compared with the Lean
//! model of the sequential-mask strategy (`casebatch`).
//! Implementation-level oracles (no model): `evaluate_selection` on the selected rows equals
//! `evaluate` on the filtered batch; batch evaluation equals single-row evaluation value by value.
use std::sync::Arc;

use arrow::array::{Array, ArrayRef, BooleanArray, RecordBatch};
use datafusion_common::DFSchema;
use datafusion_expr::execution_props::ExecutionProps;
use datafusion_expr::physical_planning_context::PhysicalPlanningContext;
use datafusion_physical_expr::{PhysicalExpr, create_physical_expr};
use hutil::{Args, Rng, Run};

use crate::sqlgen::*;

pub fn physical(e: &Expr, cols: &[(String, Ty)]) -> Result<Arc<dyn PhysicalExpr>, String> {
    let schema = schema_of(cols);
    let dfs = DFSchema::try_from(schema.as_ref().clone()).map_err(|e| e.to_string())?;
    let de = e.df(cols);
    let r = hutil::catch(std::panic::AssertUnwindSafe(|| create_physical_expr(&de, &dfs, &ExecutionProps::new(), &PhysicalPlanningContext::default())));
    match r {
        Ok(Ok(p)) => Ok(p),
        Ok(Err(e)) => Err(e.to_string()),
        Err(p) => Err(format!("PANIC: {p}")),
    }
}

pub fn eval_batch(p: &Arc<dyn PhysicalExpr>, batch: &RecordBatch) -> Result<Vec<Val>, String> {
    let p = Arc::clone(p);
    let r = hutil::catch(std::panic::AssertUnwindSafe(|| p.evaluate(batch).and_then(|v| v.into_array(batch.num_rows()))));
    match r {
        Ok(Ok(a)) => vals_of_array(a.as_ref()),
        Ok(Err(e)) => Err(e.to_string()),
        Err(p) => Err(format!("PANIC: {p}")),
    }
}

fn eval_sel(p: &Arc<dyn PhysicalExpr>, batch: &RecordBatch, mask: &BooleanArray) -> Result<Vec<Val>, String> {
    let p = Arc::clone(p);
    let r = hutil::catch(std::panic::AssertUnwindSafe(|| p.evaluate_selection(batch, mask).and_then(|v| v.into_array(batch.num_rows()))));
    match r {
        Ok(Ok(a)) => vals_of_array(a.as_ref()),
        Ok(Err(e)) => Err(e.to_string()),
        Err(p) => Err(format!("PANIC: {p}")),
    }
}

pub fn vals_sexp(vs: &[Val]) -> String {
    row_sexp(vs)
}

pub fn impl_sexp(r: &Result<Vec<Val>, String>) -> String {
    match r {
        Ok(vs) => format!("(ok {})", vals_sexp(vs)),
        Err(m) => format!("(err {})", err_class(m)),
    }
}

/// columns + exhaustive small-domain rows (+ a few random rows)
pub fn gen_table(rng: &mut Rng, max_cols: usize) -> (Vec<(String, Ty)>, Vec<Vec<Val>>) {
    let nc = 1 + rng.below(max_cols as u64) as usize;
    let cols: Vec<(String, Ty)> = (0..nc).map(|i| (format!("c{i}"), gen_ty(rng))).collect();
    let doms: Vec<Vec<Val>> = cols.iter().map(|(_, t)| domain_of(*t)).collect();
    let mut rows = all_rows(&doms);
    for _ in 0..8 {
        rows.push(cols.iter().map(|(_, t)| gen_val(rng, *t, 15)).collect());
    }
    (cols, rows)
}

fn generic(run: &mut Run, rng: &mut Rng) {
    let n = run.budget(900, 30_000);
    for i in 0..n {
        let (cols, rows) = gen_table(rng, 3);
        let infos: Vec<ColInfo> = cols.iter().map(|(n, t)| ColInfo { sql: n.clone(), ty: *t }).collect();
        let g = ExprGen { cols: &infos, outer: &[], err_pct: 20, allow_like: true };
        let ty = if rng.chance(1, 2) { Ty::Bool } else { gen_ty(rng) };
        let depth = 1 + rng.below(if run.thorough() { 4 } else { 3 }) as u32;
        let e = g.expr(rng, ty, depth);
        let mut cs = std::collections::BTreeSet::new();
        e.constructs(&mut cs);
        for c in &cs {
            run.count(&format!("construct:{c}"));
        }
        let p = match physical(&e, &cols) {
            Ok(p) => p,
            Err(m) => {
                run.count("physical-planning-rejected");
                if run.notes.len() < 8 {
                    run.note(&format!("create_physical_expr rejected {}: {}", e.sexp(), m.chars().take(200).collect::<String>()));
                }
                continue;
            }
        };
        let batch = batch_of(&cols, &rows);
        let res = eval_batch(&p, &batch);
        let varies = match &res {
            Ok(vs) => vs.iter().any(|v| *v != vs[0]),
            Err(_) => true,
        };
        run.count(if res.is_ok() { "batch:ok" } else { "batch:err" });
        if let Err(m) = &res {
            if m.starts_with("PANIC") {
                run.oracle(false, &format!("evaluate panic {}", e.sexp()), m);
                continue;
            }
        }
        run.case("evalrows", &format!("({} {} {})", e.sexp(), rows_sexp(&rows), impl_sexp(&res)), "ok", varies);

        // ---- selection
        let mask_vals: Vec<Option<bool>> = match rng.below(5) {
            0 => rows.iter().map(|_| Some(true)).collect(),
            1 => rows.iter().map(|_| Some(false)).collect(),
            _ => rows.iter().map(|_| match rng.below(8) { 0 => None, 1..=4 => Some(true), _ => Some(false) }).collect(),
        };
        let mask = BooleanArray::from(mask_vals.clone());
        let sel = eval_sel(&p, &batch, &mask);
        let mask_s = format!("({})", mask_vals.iter().map(|m| if *m == Some(true) { "t" } else { "f" }).collect::<Vec<_>>().join(" "));
        run.case("evalsel", &format!("({} {} {} {})", e.sexp(), rows_sexp(&rows), mask_s, impl_sexp(&sel)), "ok", varies);
        // oracle: selection == evaluation of the filtered batch (engine against itself)
        let sel_rows: Vec<Vec<Val>> = rows.iter().zip(&mask_vals).filter(|(_, m)| **m == Some(true)).map(|(r, _)| r.clone()).collect();
        let filtered = if sel_rows.is_empty() { Ok(vec![]) } else { eval_batch(&p, &batch_of(&cols, &sel_rows)) };
        let ok = match (&sel, &filtered) {
            (Ok(s), Ok(f)) => {
                let picked: Vec<&Val> = s.iter().zip(&mask_vals).filter(|(_, m)| **m == Some(true)).map(|(v, _)| v).collect();
                picked.len() == f.len() && picked.iter().zip(f).all(|(a, b)| **a == *b)
            }
            (Err(_), Err(_)) => true,
            // nothing selected: evaluate_selection must not fail
            (Err(_), Ok(_)) => false,
            (Ok(_), Err(_)) => false,
        };
        run.oracle(ok, &format!("evaluate_selection#{i} {} mask={mask_s}", e.sexp()), &format!("selection result {:?} vs filtered-batch result {:?}", sel.as_ref().map(|v| vals_sexp(v)), filtered.as_ref().map(|v| vals_sexp(v))));
        // oracle: batch vs single-row evaluation, value by value (on a sample of rows)
        if let Ok(bv) = &res {
            for k in 0..6 {
                let j = (i as usize * 7 + k * 13) % rows.len();
                if let Ok(sv) = eval_batch(&p, &batch_of(&cols, &rows[j..j + 1])) {
                    run.oracle(sv[0] == bv[j], &format!("batch-vs-row {} row={}", e.sexp(), row_sexp(&rows[j])), &format!("batch value {} single-row value {}", bv[j].sexp(), sv[0].sexp()));
                }
            }
        }
    }
}

/// IN-list static filters at every strategy threshold
fn static_filters(run: &mut Run, rng: &mut Rng) {
    // (width, MAX_LIST_LEN of the branchless filter, fallback)
    let specs: [(u8, usize, &str); 4] = [(8, 16, "bitmap"), (16, 8, "bitmap"), (32, 32, "hashset"), (64, 16, "hashset")];
    let reps = run.budget(6, 60);
    for (w, max, fallback) in specs {
        for len in [1usize, 2, max - 1, max, max + 1, max + 2, 2 * max + 3] {
            for with_null in [false, true] {
                for negated in [false, true] {
                    for _ in 0..reps {
                        let ty = Ty::Int(w);
                        // distinct non-null values (a duplicate would not change the non-null *count* semantics
                        // of the threshold in an interesting way; duplicates are added separately below)
                        let mut vals: Vec<i64> = vec![];
                        while vals.len() < len {
                            let v = match rng.below(6) {
                                0 => int_min(w),
                                1 => int_max(w),
                                2 => 0,
                                3 => -1,
                                _ => rng.range(int_min(w).max(-200), int_max(w).min(200)),
                            };
                            if !vals.contains(&v) {
                                vals.push(v);
                            }
                        }
                        let mut hay: Vec<Val> = vals.iter().map(|v| Val::Int(w, *v)).collect();
                        if with_null {
                            let pos = rng.below(hay.len() as u64 + 1) as usize;
                            hay.insert(pos, Val::Null);
                        }
                        if rng.chance(1, 4) {
                            let d = hay[rng.below(hay.len() as u64) as usize].clone();
                            hay.push(d);
                        }
                        let nn = {
                            let mut d: Vec<&Val> = hay.iter().filter(|v| **v != Val::Null).collect();
                            d.len()
                        };
                        let strategy = if nn <= max { "branchless".to_string() } else { fallback.to_string() };
                        let mut needles: Vec<Val> = domain_of(ty);
                        needles.extend(vals.iter().take(4).map(|v| Val::Int(w, *v)));
                        needles.push(Val::Int(w, rng.range(int_min(w).max(-300), int_max(w).min(300))));
                        let cols = vec![("c0".to_string(), ty)];
                        let e = Expr::In(negated, Box::new(Expr::Col(0)), hay.iter().map(|v| Expr::Lit(v.clone(), ty, false)).collect());
                        let p = match physical(&e, &cols) {
                            Ok(p) => p,
                            Err(m) => {
                                run.oracle(false, &format!("in-list planning w={w} len={len}"), &m);
                                continue;
                            }
                        };
                        let rows: Vec<Vec<Val>> = needles.iter().map(|v| vec![v.clone()]).collect();
                        let res = eval_batch(&p, &batch_of(&cols, &rows));
                        let ans = match &res {
                            Ok(vs) => vs.iter().map(|v| match v { Val::Bool(true) => "t", Val::Bool(false) => "f", Val::Null => "u", _ => "?" }).collect::<Vec<_>>().join(" "),
                            Err(m) => format!("err {}", err_class(m)),
                        };
                        run.count(&format!("static:{strategy}:w{w}"));
                        let hs = hay.iter().map(|v| match v { Val::Int(_, n) => n.to_string(), _ => "null".into() }).collect::<Vec<_>>().join(" ");
                        let ns = needles.iter().map(|v| match v { Val::Int(_, n) => n.to_string(), _ => "null".into() }).collect::<Vec<_>>().join(" ");
                        run.case("static", &format!("({strategy} {w} {} ({hs}) ({ns}))", if negated { "t" } else { "f" }), &ans, true);
                    }
                }
            }
        }
    }
}

/// CASE whose THEN/ELSE expressions fail on rows that their WHEN excludes
fn guarded_case(run: &mut Run, rng: &mut Rng) {
    let n = run.budget(400, 8000);
    let cols: Vec<(String, Ty)> = vec![("a".into(), Ty::Int(64)), ("b".into(), Ty::Int(64))];
    let doms = vec![domain_of(Ty::Int(64)), domain_of(Ty::Int(64))];
    let all = all_rows(&doms);
    let a = || Expr::Col(0);
    let b = || Expr::Col(1);
    let lit = |n: i64| Expr::i64(n);
    for _ in 0..n {
        // guards and the failing expressions they protect
        let guards: Vec<(Expr, Expr)> = vec![
            (Expr::bin(Op::Ne, b(), lit(0)), Expr::bin(Op::Div, a(), b())),
            (Expr::bin(Op::Gt, b(), lit(0)), Expr::bin(Op::Mod, a(), b())),
            (Expr::bin(Op::Eq, b(), lit(0)), Expr::bin(Op::Add, a(), lit(1))),
            (Expr::Is(IsKind::Null, false, Box::new(b())), lit(-7)),
            (Expr::and(Expr::bin(Op::Ne, b(), lit(0)), Expr::bin(Op::Ne, b(), lit(-1))), Expr::bin(Op::Div, a(), b())),
            (Expr::bin(Op::Lt, a(), lit(0)), Expr::Cast { ty: Ty::Int(8), try_: false, implicit: false, e: Box::new(Expr::bin(Op::Div, lit(100), a())) }),
            // an unguarded one: errors are expected and must be errors of the reference too
            (Expr::bin(Op::Ge, a(), lit(1)), Expr::bin(Op::Div, a(), b())),
        ];
        let k = 1 + rng.below(3) as usize;
        let mut whens = vec![];
        for _ in 0..k {
            whens.push(guards[rng.below(guards.len() as u64) as usize].clone());
        }
        let els = match rng.below(4) {
            0 => None,
            1 => Some(Box::new(lit(0))),
            2 => Some(Box::new(Expr::bin(Op::Div, lit(1), a()))),
            _ => Some(Box::new(a())),
        };
        let e = Expr::Case(None, whens.clone(), els.clone());
        // a random subset of the exhaustive domain, in random order: which rows are present decides
        // which branches select no row at all
        let mut rows: Vec<Vec<Val>> = all.iter().filter(|_| rng.chance(1, 3)).cloned().collect();
        if rng.chance(1, 3) {
            rows.retain(|r| r[1] != Val::Int(64, 0));
        }
        if rows.is_empty() {
            rows.push(all[0].clone());
        }
        let p = match physical(&e, &cols) {
            Ok(p) => p,
            Err(m) => {
                run.oracle(false, &format!("case planning {}", e.sexp()), &m);
                continue;
            }
        };
        let method = format!("{p:?}");
        let m = if k == 1 { "one-branch" } else { "multi-branch" };
        run.count(&format!("case:{m}"));
        let _ = method;
        let res = eval_batch(&p, &batch_of(&cols, &rows));
        let ans = match &res {
            Ok(vs) => format!("ok {}", vals_sexp(vs)),
            Err(_) => "err".to_string(),
        };
        run.count(if res.is_ok() { "case:ok" } else { "case:err" });
        let whens_s = whens.iter().map(|(w, t)| format!("({} {})", w.sexp(), t.sexp())).collect::<Vec<_>>().join(" ");
        run.case("casebatch", &format!("(({whens_s}) ({}) {})", els.as_ref().map(|e| e.sexp()).unwrap_or_default(), rows_sexp(&rows)), &ans, true);
    }
}

pub fn run(run: &mut Run, args: &Args) {
    let mut rng = Rng::new(args.seed);
    hutil::quiet_panics();
    generic(run, &mut rng);
    static_filters(run, &mut rng);
    guarded_case(run, &mut rng);
    let _: Option<ArrayRef> = None;
}
