//! C32 — scalar function results do not depend on argument representation.
//!
//! Enumerates EVERY scalar function of the default session registry and of the Spark registry at
//! run time.  For each function, candidate argument type tuples (arity 0..3 over a pool of base
//! types) are pushed through the engine's own coercion (`fields_with_udf`); every distinct accepted
//! (coerced) signature gets generated argument rows (NULLs, empty/unicode strings, extreme numbers)
//! and is invoked through `ScalarUDF::invoke_with_args` in every alternative encoding:
//!   array | scalar for constant arguments | slice of a larger array | split across two batches |
//!   row by row (all scalars) | Utf8View / LargeUtf8 re-encoding | dictionary-encoded argument.
//! Implementation-level oracle: per-row results equal across representations whenever both
//! succeed; a batch whose rows all succeed on their own succeeds; result type = declared type;
//! array results have one value per row.  For the functions with a Lean reference
//! (`Base/ScalarFns.lean`) the per-row results are additionally compared with the model (`rows` op).
use std::collections::{BTreeMap, BTreeSet};
use std::sync::Arc;

use arrow::array::*;
use arrow::compute::cast;
use arrow::datatypes::*;
use datafusion::prelude::SessionContext;
use datafusion_common::ScalarValue;
use datafusion_common::config::ConfigOptions;
use datafusion_expr::type_coercion::functions::fields_with_udf;
use datafusion_expr::{ColumnarValue, ReturnFieldArgs, ScalarFunctionArgs, ScalarUDF, Volatility};
use hutil::{Args, Rng, Run, hex};

static GUARD: std::sync::atomic::AtomicUsize = std::sync::atomic::AtomicUsize::new(0);

fn guarded<T>(f: impl FnOnce() -> Result<T, String>) -> Result<T, String> {
    use std::sync::atomic::Ordering::SeqCst;
    GUARD.fetch_add(1, SeqCst);
    let r = hutil::catch(std::panic::AssertUnwindSafe(f));
    GUARD.fetch_sub(1, SeqCst);
    match r {
        Ok(r) => r,
        Err(p) => Err(format!("panic: {p}")),
    }
}

/// functions that legitimately inspect physical types / metadata, depend on the session clock or
/// file context, or need literal (non-column) arguments by contract
const EXCLUDED: [&str; 22] = [
    "arrow_typeof", "arrow_cast", "arrow_try_cast", "arrow_metadata", "arrow_field", "version", "now", "current_date", "current_time",
    "current_timestamp", "today", "input_file_name", "file_row_index", "with_metadata", "union_tag", "union_extract", "get_field", "named_struct",
    "cast_to_type", "try_cast_to_type", "random", "uuid",
];

/// functions that may receive extreme integers (they neither allocate nor loop proportionally)
const BIG_INT_OK: [&str; 16] = [
    "abs", "gcd", "lcm", "factorial", "signum", "to_hex", "chr", "substr", "left", "right", "split_part", "strpos", "nullif", "isnan", "iszero", "substr_index",
];

fn base_types() -> Vec<DataType> {
    vec![
        DataType::Int64,
        DataType::Utf8,
        DataType::Float64,
        DataType::Boolean,
        DataType::Int32,
        DataType::Date32,
        DataType::Timestamp(TimeUnit::Nanosecond, None),
        DataType::List(Arc::new(Field::new_list_field(DataType::Int64, true))),
        DataType::Decimal128(10, 2),
        DataType::Binary,
        DataType::UInt64,
    ]
}

const STRS: [&str; 16] = ["", "a", "ab", "abc", "hello world", "\u{e9}", "\u{4e2d}\u{6587}x", "a,b,,c", " pad ", "xyx", "AbC", "0", "12", "-5", "%_", "aaa"];

fn gen_value(rng: &mut Rng, dt: &DataType, big: bool) -> ScalarValue {
    if rng.chance(1, 5) {
        return ScalarValue::try_new_null(dt).unwrap();
    }
    let int = |rng: &mut Rng| -> i64 {
        if big && rng.chance(1, 4) {
            *rng.pick(&[i64::MAX, i64::MIN, i64::MIN + 1, 1 << 31, -(1 << 31) - 1, 1 << 32, 21, 20, 0x10FFFF, 0xD800, 1114112])
        } else {
            *rng.pick(&[0i64, 1, 2, 3, 5, 7, 10, 12, -1, -2, -3, 20, 64, 97, 100])
        }
    };
    match dt {
        DataType::Int64 => ScalarValue::Int64(Some(int(rng))),
        DataType::Int32 => ScalarValue::Int32(Some(int(rng).clamp(i32::MIN as i64, i32::MAX as i64) as i32)),
        DataType::Int16 => ScalarValue::Int16(Some(int(rng).clamp(-100, 100) as i16)),
        DataType::Int8 => ScalarValue::Int8(Some(int(rng).clamp(-100, 100) as i8)),
        DataType::UInt64 => ScalarValue::UInt64(Some(int(rng).unsigned_abs().min(if big { u64::MAX } else { 1000 }))),
        DataType::UInt32 => ScalarValue::UInt32(Some(int(rng).unsigned_abs().min(1000) as u32)),
        DataType::UInt16 => ScalarValue::UInt16(Some(int(rng).unsigned_abs().min(1000) as u16)),
        DataType::UInt8 => ScalarValue::UInt8(Some(int(rng).unsigned_abs().min(200) as u8)),
        DataType::Float64 => ScalarValue::Float64(Some(*rng.pick(&[0.0, -0.0, 1.0, -1.0, 0.5, 2.0, 1.5, -2.5, 100.0, 1e300, f64::INFINITY, f64::NAN]))),
        DataType::Float32 => ScalarValue::Float32(Some(*rng.pick(&[0.0f32, -0.0, 1.0, -1.0, 0.5, 2.0, 1.5, -2.5, 100.0, f32::INFINITY, f32::NAN]))),
        DataType::Boolean => ScalarValue::Boolean(Some(rng.chance(1, 2))),
        DataType::Utf8 => ScalarValue::Utf8(Some(rng.pick(&STRS).to_string())),
        DataType::LargeUtf8 => ScalarValue::LargeUtf8(Some(rng.pick(&STRS).to_string())),
        DataType::Utf8View => ScalarValue::Utf8View(Some(rng.pick(&STRS).to_string())),
        DataType::Binary => ScalarValue::Binary(Some(rng.pick(&STRS).as_bytes().to_vec())),
        DataType::LargeBinary => ScalarValue::LargeBinary(Some(rng.pick(&STRS).as_bytes().to_vec())),
        DataType::BinaryView => ScalarValue::BinaryView(Some(rng.pick(&STRS).as_bytes().to_vec())),
        DataType::Date32 => ScalarValue::Date32(Some(*rng.pick(&[0, 1, 365, 19000, -1, 20000]))),
        DataType::Date64 => ScalarValue::Date64(Some(*rng.pick(&[0i64, 86_400_000, 1_600_000_000_000]))),
        DataType::Timestamp(u, tz) => {
            let v = Some(*rng.pick(&[0i64, 1, 1_600_000_000, 1_600_000_000_123_456_789, -1]));
            match u {
                TimeUnit::Second => ScalarValue::TimestampSecond(v, tz.clone()),
                TimeUnit::Millisecond => ScalarValue::TimestampMillisecond(v, tz.clone()),
                TimeUnit::Microsecond => ScalarValue::TimestampMicrosecond(v, tz.clone()),
                TimeUnit::Nanosecond => ScalarValue::TimestampNanosecond(v, tz.clone()),
            }
        }
        DataType::Decimal128(p, s) => ScalarValue::Decimal128(Some(*rng.pick(&[0i128, 1, 150, -150, 12345, 99999])), *p, *s),
        DataType::List(f) if f.data_type() == &DataType::Int64 => {
            let n = rng.below(4) as usize;
            let vals: Vec<ScalarValue> = (0..n).map(|_| if rng.chance(1, 5) { ScalarValue::Int64(None) } else { ScalarValue::Int64(Some(rng.range(-2, 5))) }).collect();
            ScalarValue::List(ScalarValue::new_list_nullable(&vals, &DataType::Int64))
        }
        other => ScalarValue::try_new_null(other).unwrap(),
    }
}

fn can_generate(dt: &DataType) -> bool {
    matches!(
        dt,
        DataType::Int8
            | DataType::Int16
            | DataType::Int32
            | DataType::Int64
            | DataType::UInt8
            | DataType::UInt16
            | DataType::UInt32
            | DataType::UInt64
            | DataType::Float32
            | DataType::Float64
            | DataType::Boolean
            | DataType::Utf8
            | DataType::LargeUtf8
            | DataType::Utf8View
            | DataType::Binary
            | DataType::LargeBinary
            | DataType::BinaryView
            | DataType::Date32
            | DataType::Date64
            | DataType::Timestamp(_, _)
            | DataType::Decimal128(_, _)
    ) || matches!(dt, DataType::List(f) if f.data_type() == &DataType::Int64)
}

fn norm_dec(mut v: i128, mut sc: i8) -> String {
    while sc > 0 && v % 10 == 0 {
        v /= 10;
        sc -= 1;
    }
    format!("d:{v}e-{sc}")
}

/// encoding-independent text of one result value
fn canon(s: &ScalarValue) -> String {
    use ScalarValue::*;
    match s {
        _ if s.is_null() => "null".into(),
        Dictionary(_, v) => canon(v),
        Int8(Some(v)) => format!("i:{v}"),
        Int16(Some(v)) => format!("i:{v}"),
        Int32(Some(v)) => format!("i:{v}"),
        Int64(Some(v)) => format!("i:{v}"),
        UInt8(Some(v)) => format!("i:{v}"),
        UInt16(Some(v)) => format!("i:{v}"),
        UInt32(Some(v)) => format!("i:{v}"),
        UInt64(Some(v)) => format!("i:{v}"),
        Float64(Some(v)) => format!("f64:{:016x}", if v.is_nan() { f64::NAN.to_bits() } else { v.to_bits() }),
        Float32(Some(v)) => format!("f32:{:08x}", if v.is_nan() { f32::NAN.to_bits() } else { v.to_bits() }),
        Float16(Some(v)) => format!("f16:{:04x}", v.to_bits()),
        Utf8(Some(v)) | LargeUtf8(Some(v)) | Utf8View(Some(v)) => format!("s:{}", hex(v.as_bytes())),
        Binary(Some(v)) | LargeBinary(Some(v)) | BinaryView(Some(v)) => format!("b:{}", hex(v)),
        Boolean(Some(v)) => format!("bool:{v}"),
        // decimals: unscaled value and scale (the precision is a type parameter, checked by the return-type oracle)
        // (trailing zeros removed: `round(x, literal)` legitimately declares another scale)
        Decimal32(Some(v), _, sc) => norm_dec(*v as i128, *sc),
        Decimal64(Some(v), _, sc) => norm_dec(*v as i128, *sc),
        Decimal128(Some(v), _, sc) => norm_dec(*v, *sc),
        Decimal256(Some(v), _, sc) => format!("d256:{v}e-{sc}"),
        // nested / temporal values: Debug text of the logical value (element encodings do not show)
        other => guarded(|| Ok(format!("{other:?}"))).unwrap_or_else(|_| "?".into()).replace(['\n', '\t'], " "),
    }
}

/// model s-expression of a logical value (ints, strings, bools)
fn model_val(s: &ScalarValue) -> Option<String> {
    use ScalarValue::*;
    Some(match s {
        _ if s.is_null() => "null".into(),
        Int64(Some(v)) => format!("(i {v})"),
        Int32(Some(v)) => format!("(i {v})"),
        Utf8(Some(v)) | LargeUtf8(Some(v)) | Utf8View(Some(v)) => {
            let cps: Vec<String> = v.chars().map(|c| (c as u32).to_string()).collect();
            if cps.is_empty() { "(s)".into() } else { format!("(s {})", cps.join(" ")) }
        }
        Boolean(Some(v)) => format!("(b {})", if *v { "t" } else { "f" }),
        _ => return None,
    })
}

const MODELLED: [&str; 30] = [
    "abs", "gcd", "lcm", "factorial", "chr", "ascii", "character_length", "octet_length", "bit_length", "reverse", "left", "right", "lpad", "rpad", "repeat",
    "starts_with", "ends_with", "contains", "strpos", "substr", "replace", "split_part", "translate", "btrim", "ltrim", "rtrim", "to_hex", "find_in_set", "concat",
    "nullif",
];

fn modelled_type(dt: &DataType) -> bool {
    matches!(dt, DataType::Int64 | DataType::Utf8 | DataType::LargeUtf8 | DataType::Utf8View)
}

struct Call<'a> {
    udf: &'a ScalarUDF,
    cfg: Arc<ConfigOptions>,
}

impl Call<'_> {
    /// invoke with the given physical arguments over `n` rows; returns (declared type, per-row canonical values)
    fn invoke(&self, args: Vec<ColumnarValue>, n: usize) -> Result<(DataType, DataType, Vec<String>, Vec<ScalarValue>), String> {
        let udf = self.udf;
        let cfg = self.cfg.clone();
        guarded(move || {
            let fields: Vec<FieldRef> = args.iter().enumerate().map(|(i, a)| Arc::new(Field::new(format!("a{i}"), a.data_type(), true))).collect();
            let scalars: Vec<Option<&ScalarValue>> = args.iter().map(|a| match a { ColumnarValue::Scalar(s) => Some(s), _ => None }).collect();
            let ret = udf.return_field_from_args(ReturnFieldArgs { arg_fields: &fields, scalar_arguments: &scalars }).map_err(|e| format!("return_field: {e}"))?;
            let out = udf
                .invoke_with_args(ScalarFunctionArgs { args: args.clone(), arg_fields: fields, number_rows: n, return_field: ret.clone(), config_options: cfg })
                .map_err(|e| e.to_string())?;
            let got_ty = out.data_type();
            if let ColumnarValue::Array(a) = &out {
                if a.len() != n {
                    return Err(format!("LENGTH: array result has {} rows for a batch of {n}", a.len()));
                }
            }
            let arr = out.into_array(n).map_err(|e| e.to_string())?;
            let mut canon_rows = vec![];
            let mut raw = vec![];
            for i in 0..n {
                let v = ScalarValue::try_from_array(&arr, i).map_err(|e| e.to_string())?;
                canon_rows.push(canon(&v));
                raw.push(v);
            }
            Ok((ret.data_type().clone(), got_ty, canon_rows, raw))
        })
    }
}

fn reencode(a: &ArrayRef, to: &DataType) -> Option<ArrayRef> {
    cast(a, to).ok()
}

fn to_dict(a: &ArrayRef, rng: &mut Rng) -> Option<ArrayRef> {
    // dictionary with an unreferenced leading value: values = [extra] ++ distinct rows
    let dt = DataType::Dictionary(Box::new(DataType::Int32), Box::new(a.data_type().clone()));
    let d = cast(a, &dt).ok()?;
    let _ = rng;
    Some(d)
}

pub fn run(run: &mut Run, args: &Args) {
    std::panic::set_hook(Box::new(|info| {
        if GUARD.load(std::sync::atomic::Ordering::SeqCst) == 0 {
            eprintln!("harness panic: {info}");
        }
    }));
    let mut rng = Rng::new(args.seed);
    let ctx = SessionContext::new();
    let state = ctx.state();
    let mut udfs: BTreeMap<String, Arc<ScalarUDF>> = BTreeMap::new();
    for f in state.scalar_functions().values() {
        udfs.insert(f.name().to_string(), f.clone());
    }
    let n_default = udfs.len();
    for f in datafusion_spark::all_default_scalar_functions() {
        udfs.entry(format!("spark.{}", f.name())).or_insert(f);
    }
    run.add("functions_default_registry", n_default as u64);
    run.add("functions_spark_registry", (udfs.len() - n_default) as u64);
    let cfg = Arc::new(ConfigOptions::default());
    let pool = base_types();
    let max_sigs = run.budget(10, 16) as usize;
    let datasets = run.budget(40, 400);
    let mut excluded = vec![];
    let mut no_signature = vec![];
    let mut unmodelled: BTreeSet<String> = BTreeSet::new();
    let mut exercised = 0u64;
    for (key, udf) in &udfs {
        let name = udf.name().to_string();
        if EXCLUDED.contains(&name.as_str()) || udf.signature().volatility == Volatility::Volatile {
            excluded.push(key.clone());
            continue;
        }
        // candidate tuples, arity 0..3, in a seed-dependent order
        let mut cands: Vec<Vec<DataType>> = vec![vec![]];
        for a in &pool {
            cands.push(vec![a.clone()]);
            for b in &pool {
                cands.push(vec![a.clone(), b.clone()]);
                for c in pool.iter().take(6) {
                    cands.push(vec![a.clone(), b.clone(), c.clone()]);
                }
            }
        }
        let mut sigs: Vec<Vec<DataType>> = vec![];
        let mut seen = BTreeSet::new();
        let start = rng.below(cands.len() as u64) as usize;
        for k in 0..cands.len() {
            let cand = &cands[(start + k * 7) % cands.len()];
            let fields: Vec<FieldRef> = cand.iter().map(|t| Arc::new(Field::new("f", t.clone(), true))).collect();
            let udf2 = udf.clone();
            let Ok(coerced) = guarded(move || fields_with_udf(&fields, udf2.as_ref()).map_err(|e| e.to_string())) else { continue };
            let tys: Vec<DataType> = coerced.iter().map(|f| f.data_type().clone()).collect();
            if tys.len() != cand.len() || !tys.iter().all(can_generate) {
                continue;
            }
            if seen.insert(format!("{tys:?}")) {
                // prefer signatures that needed no coercion first
                if &tys == cand { sigs.insert(0, tys) } else { sigs.push(tys) }
            }
            if sigs.len() >= max_sigs * 3 {
                break;
            }
        }
        sigs.truncate(max_sigs);
        if sigs.is_empty() {
            no_signature.push(key.clone());
            continue;
        }
        exercised += 1;
        let call = Call { udf: udf.as_ref(), cfg: cfg.clone() };
        let big = BIG_INT_OK.contains(&name.as_str());
        let is_modelled = !key.starts_with("spark.") && MODELLED.contains(&name.as_str());
        if !is_modelled {
            unmodelled.insert(key.clone());
        }
        for sig in &sigs {
            for ds in 0..datasets {
                let n = 5usize;
                // columns of logical values; ~1/3 of the arguments constant over the batch
                let cols: Vec<Vec<ScalarValue>> = sig
                    .iter()
                    .map(|t| {
                        if rng.chance(1, 3) {
                            let v = gen_value(&mut rng, t, big);
                            vec![v; n]
                        } else {
                            (0..n).map(|_| gen_value(&mut rng, t, big)).collect()
                        }
                    })
                    .collect();
                let arrays: Vec<ArrayRef> = cols.iter().zip(sig).map(|(c, t)| if c.is_empty() { new_empty_array(t) } else { ScalarValue::iter_to_array(c.clone()).unwrap() }).collect();
                let tag = format!("{key}({}) ds{ds}", sig.iter().map(|t| t.to_string()).collect::<Vec<_>>().join(", "));
                let show_rows = || -> String {
                    (0..n).map(|i| format!("[{}]", cols.iter().map(|c| canon(&c[i])).collect::<Vec<_>>().join(", "))).collect::<Vec<_>>().join(" ")
                };
                // --- reference: row by row, all arguments scalar
                let rows: Vec<Result<(DataType, DataType, Vec<String>, Vec<ScalarValue>), String>> =
                    (0..n).map(|i| call.invoke(cols.iter().map(|c| ColumnarValue::Scalar(c[i].clone())).collect(), 1)).collect();
                // the same rows as one-row ARRAYS (functions that insist on literal arguments fail here too)
                let rows_arr: Vec<Result<(DataType, DataType, Vec<String>, Vec<ScalarValue>), String>> =
                    (0..n).map(|i| call.invoke(arrays.iter().map(|a| ColumnarValue::Array(a.slice(i, 1))).collect(), 1)).collect();
                // --- representations
                let mut reps: Vec<(String, Result<(DataType, DataType, Vec<String>, Vec<ScalarValue>), String>)> = vec![];
                reps.push(("array".into(), call.invoke(arrays.iter().map(|a| ColumnarValue::Array(a.clone())).collect(), n)));
                if !sig.is_empty() {
                    if cols.iter().any(|c| c.iter().all(|v| v == &c[0] && v.data_type() == c[0].data_type())) {
                        let a: Vec<ColumnarValue> = cols
                            .iter()
                            .zip(&arrays)
                            .map(|(c, a)| if c.iter().all(|v| v == &c[0]) { ColumnarValue::Scalar(c[0].clone()) } else { ColumnarValue::Array(a.clone()) })
                            .collect();
                        if a.iter().any(|x| matches!(x, ColumnarValue::Array(_))) {
                            reps.push(("scalar-consts".into(), call.invoke(a, n)));
                        }
                    }
                    // slices of larger arrays
                    let sliced: Vec<ColumnarValue> = cols
                        .iter()
                        .zip(sig)
                        .map(|(c, t)| {
                            let mut padded = vec![gen_value(&mut rng, t, false), gen_value(&mut rng, t, false)];
                            padded.extend(c.iter().cloned());
                            padded.push(gen_value(&mut rng, t, false));
                            ColumnarValue::Array(ScalarValue::iter_to_array(padded).unwrap().slice(2, n))
                        })
                        .collect();
                    reps.push(("sliced".into(), call.invoke(sliced, n)));
                    // split across two batches
                    let k = 1 + rng.below(n as u64 - 1) as usize;
                    let first = call.invoke(arrays.iter().map(|a| ColumnarValue::Array(a.slice(0, k))).collect(), k);
                    let second = call.invoke(arrays.iter().map(|a| ColumnarValue::Array(a.slice(k, n - k))).collect(), n - k);
                    reps.push((
                        format!("split@{k}"),
                        match (first, second) {
                            (Ok(mut a), Ok(b)) => {
                                a.2.extend(b.2);
                                a.3.extend(b.3);
                                Ok(a)
                            }
                            (Err(e), _) | (_, Err(e)) => Err(e),
                        },
                    ));
                    // alternative string / binary encodings and dictionary encoding, one argument at a time
                    for (j, t) in sig.iter().enumerate() {
                        let alts: Vec<DataType> = match t {
                            DataType::Utf8 => vec![DataType::Utf8View, DataType::LargeUtf8],
                            DataType::LargeUtf8 => vec![DataType::Utf8, DataType::Utf8View],
                            DataType::Utf8View => vec![DataType::Utf8, DataType::LargeUtf8],
                            DataType::Binary => vec![DataType::BinaryView, DataType::LargeBinary],
                            _ => vec![],
                        };
                        let mut variants: Vec<(String, ArrayRef)> = vec![];
                        for alt in alts {
                            if let Some(a) = reencode(&arrays[j], &alt) {
                                variants.push((format!("arg{j}-as-{alt}"), a));
                            }
                        }
                        if matches!(t, DataType::Utf8 | DataType::Int64 | DataType::LargeUtf8 | DataType::Utf8View) {
                            if let Some(a) = to_dict(&arrays[j], &mut rng) {
                                variants.push((format!("arg{j}-as-dictionary"), a));
                            }
                        }
                        for (label, a) in variants {
                            // only if the function accepts these physical types as they are
                            let mut tys: Vec<DataType> = sig.clone();
                            tys[j] = a.data_type().clone();
                            let fields: Vec<FieldRef> = tys.iter().map(|t| Arc::new(Field::new("f", t.clone(), true))).collect();
                            let udf2 = udf.clone();
                            let accepted = guarded(move || fields_with_udf(&fields, udf2.as_ref()).map_err(|e| e.to_string()));
                            let same = matches!(&accepted, Ok(c) if c.iter().map(|f| f.data_type().clone()).collect::<Vec<_>>() == tys);
                            if !same {
                                continue;
                            }
                            let mut v: Vec<ColumnarValue> = arrays.iter().map(|a| ColumnarValue::Array(a.clone())).collect();
                            v[j] = ColumnarValue::Array(a);
                            reps.push((label, call.invoke(v, n)));
                        }
                    }
                }
                // --- oracles
                let all_rows_ok = rows_arr.iter().all(|r| r.is_ok());
                let row_txt = |i: usize| cols.iter().map(|c| canon(&c[i])).collect::<Vec<_>>().join(", ");
                for (label, res) in &reps {
                    run.count(&format!("rep_{}", label.split(['@', '-']).next().unwrap_or("")));
                    let same_types = !label.starts_with("arg");
                    let sig_txt = format!("{tag} rep={label} rows={}", show_rows());
                    match res {
                        Ok((declared, got, vals, _)) => {
                            run.oracle(declared == got, &format!("{sig_txt} return-type"), &format!("declared {declared}, returned {got}"));
                            for i in 0..n.min(vals.len()) {
                                for (kind, reference) in [("row-alone-scalars", &rows[i]), ("row-alone-array", &rows_arr[i])] {
                                    if let Ok((_, _, rv, _)) = reference {
                                        run.oracle(
                                            vals[i] == rv[0],
                                            &format!("{tag} rep={label} vs {kind} row{i}=[{}] value", row_txt(i)),
                                            &format!("representation `{label}` gives {} for row {i}, evaluating the row alone ({kind}) gives {} (batch rows: {})", vals[i], rv[0], show_rows()),
                                        );
                                    }
                                }
                            }
                        }
                        Err(e) => {
                            if e.starts_with("LENGTH") {
                                run.oracle(false, &format!("{sig_txt} length"), e);
                            } else if e.contains("was promised at planning time") {
                                run.oracle(false, &format!("{sig_txt} return-type"), e);
                            } else if same_types {
                                // a batch whose rows each succeed on their own must succeed
                                run.oracle(!all_rows_ok, &format!("{sig_txt} batch-fails-rows-succeed"), &format!("every row evaluates on its own but representation `{label}` fails: {e}"));
                            } else if e.starts_with("panic") || e.contains("Internal error") {
                                run.oracle(!all_rows_ok, &format!("{sig_txt} encoding-accepted-but-fails"), &format!("the coercion accepts this encoding unchanged, every row evaluates on its own, but `{label}` fails: {e}"));
                            } else {
                                run.count("encoding_rejected_at_run_time");
                            }
                        }
                    }
                }
                for i in 0..n {
                    for (kind, r) in [("row-scalars", &rows[i]), ("row-array", &rows_arr[i])] {
                        match r {
                            Ok((declared, got, _, _)) => run.oracle(declared == got, &format!("{tag} rep={kind} row{i}=[{}] return-type", row_txt(i)), &format!("declared {declared}, returned {got}")),
                            Err(e) if e.contains("was promised at planning time") => run.oracle(false, &format!("{tag} rep={kind} row{i}=[{}] return-type", row_txt(i)), e),
                            Err(_) => {}
                        }
                    }
                    if let (Ok(_), Err(e)) = (&rows[i], &rows_arr[i]) {
                        if e.contains("was promised at planning time") {
                            // reported by the return-type oracle
                        } else if e.starts_with("panic") || e.contains("Internal error") {
                            run.oracle(false, &format!("{tag} rep=row-array row{i}=[{}] fails-where-row-scalars-succeed", row_txt(i)), &format!("the row evaluates with all-scalar arguments but as a one-row batch of arrays it fails: {e}"));
                        } else {
                            run.count("row_array_rejected_row_scalars_ok");
                        }
                    }
                    // one row as scalars vs the same row as a one-row array
                    if let (Ok((_, _, a, _)), Ok((_, _, b, _))) = (&rows[i], &rows_arr[i]) {
                        run.oracle(a[0] == b[0], &format!("{tag} rep=row-scalars vs row-array row{i}=[{}] value", row_txt(i)), &format!("all-scalar arguments give {}, one-row arrays give {}", a[0], b[0]));
                    }
                }
                run.count(if all_rows_ok { "dataset_all_rows_ok" } else { "dataset_with_failing_row" });
                // --- correspondence with the Lean reference
                if is_modelled && sig.iter().all(modelled_type) {
                    for i in 0..n {
                        let a: Option<Vec<String>> = cols.iter().map(|c| model_val(&c[i])).collect();
                        let Some(a) = a else { continue };
                        let ans = match if rows[i].is_ok() { &rows[i] } else { &rows_arr[i] } {
                            Ok((_, _, _, raw)) => match model_val(&raw[0]) {
                                Some(v) => v,
                                None => continue,
                            },
                            Err(e) if e.starts_with("panic") => "err:panic".into(),
                            Err(_) => "err".into(),
                        };
                        run.case("fn", &format!("({name} ({}))", a.join(" ")), &ans, true);
                        run.count(&format!("modelled_{name}"));
                    }
                }
            }
        }
    }
    run.add("functions_exercised", exercised);
    run.note(&format!("excluded ({}; physical-type inspection, clock/file context, literal-only arguments, volatile): {}", excluded.len(), excluded.join(" ")));
    run.note(&format!("no accepted signature within arity 0..3 over the type pool ({}): {}", no_signature.len(), no_signature.join(" ")));
    run.note(&format!("exercised without a Lean reference ({}): {}", unmodelled.len(), unmodelled.into_iter().collect::<Vec<_>>().join(" ")));
}
