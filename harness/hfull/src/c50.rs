//! C50 — queries accepted over unbounded inputs keep producing results.
//!
//! (A) `judge` (refinement): SQL shapes (filter / project / limit / ordered aggregation / union all)
//!     over a `StreamingTable` whose single `PartitionStream` NEVER ends and is fed by the harness.
//!     After every feed the plan's output streams are polled until they are all `Pending` (no
//!     wall clock: polling is non-blocking, quiescence = two full rounds without progress), the
//!     number of delivered rows is recorded as a checkpoint, and the Lean prefix semantics judges:
//!     delivered rows are determined by the input fed so far, never more than the input seen
//!     determines, and — with a lag of at most `slack` input rows for operator buffers — all rows
//!     a prefix determines have been delivered.
//! (B) `props` (equality): physical plans obtained from SQL with the SanityCheckPlan rule removed
//!     are exported node by node; the declared `boundedness()/pipeline_behavior()` of every node
//!     and the verdict of the real `SanityCheckPlan` are compared with the model's algebra.
//! Oracles: shapes the planner rejects never start; accepted plans over the endless source do
//!     not report end-of-stream unless a LIMIT was reached; pure filter/project/limit chains are
//!     accepted; ORDER BY on an unsorted column / hash GROUP BY / unbounded window are rejected.
use std::collections::VecDeque;
use std::pin::Pin;
use std::sync::{Arc, Mutex};
use std::task::{Context, Poll, Waker};

use arrow::array::{ArrayRef, AsArray, Int64Array, RecordBatch};
use arrow::datatypes::{DataType, Field, Int64Type, Schema, SchemaRef};
use datafusion::catalog::streaming::StreamingTable;
use datafusion::datasource::MemTable;
use datafusion::execution::session_state::SessionStateBuilder;
use datafusion::prelude::{SessionConfig, SessionContext, col};
use datafusion_common::Result;
use datafusion_execution::{RecordBatchStream, SendableRecordBatchStream, TaskContext};
use datafusion_physical_optimizer::PhysicalOptimizerRule;
use datafusion_physical_optimizer::optimizer::PhysicalOptimizer;
use datafusion_physical_optimizer::sanity_checker::SanityCheckPlan;
use datafusion_physical_plan::aggregates::AggregateExec;
use datafusion_physical_plan::execution_plan::{Boundedness, EmissionType};
use datafusion_physical_plan::sorts::sort::SortExec;
use datafusion_physical_plan::streaming::{PartitionStream, StreamingTableExec};
use datafusion_physical_plan::{ExecutionPlan, ExecutionPlanProperties, InputOrderMode};
use futures::{Stream, StreamExt};
use hutil::{Args, Rng, Run};

fn kv_schema() -> SchemaRef {
    Arc::new(Schema::new(vec![Field::new("k", DataType::Int64, false), Field::new("v", DataType::Int64, false)]))
}
fn kv_batch(rows: &[(i64, i64)]) -> RecordBatch {
    RecordBatch::try_new(
        kv_schema(),
        vec![
            Arc::new(Int64Array::from(rows.iter().map(|r| r.0).collect::<Vec<_>>())) as ArrayRef,
            Arc::new(Int64Array::from(rows.iter().map(|r| r.1).collect::<Vec<_>>())),
        ],
    )
    .unwrap()
}

// ------------------------------------------------------------------ the endless, harness-fed source

#[derive(Default)]
struct Log {
    batches: Vec<RecordBatch>,
    wakers: Vec<Waker>,
}
#[derive(Debug)]
struct Endless {
    schema: SchemaRef,
    log: Arc<Mutex<Log>>,
}
impl std::fmt::Debug for Log {
    fn fmt(&self, f: &mut std::fmt::Formatter<'_>) -> std::fmt::Result {
        write!(f, "Log({} batches)", self.batches.len())
    }
}
struct Cursor {
    schema: SchemaRef,
    log: Arc<Mutex<Log>>,
    pos: usize,
}
impl Stream for Cursor {
    type Item = Result<RecordBatch>;
    fn poll_next(mut self: Pin<&mut Self>, cx: &mut Context<'_>) -> Poll<Option<Self::Item>> {
        let mut l = self.log.lock().unwrap();
        if self.pos < l.batches.len() {
            let b = l.batches[self.pos].clone();
            drop(l);
            self.pos += 1;
            Poll::Ready(Some(Ok(b)))
        } else {
            // never ends
            l.wakers.push(cx.waker().clone());
            Poll::Pending
        }
    }
}
impl RecordBatchStream for Cursor {
    fn schema(&self) -> SchemaRef {
        self.schema.clone()
    }
}
impl PartitionStream for Endless {
    fn schema(&self) -> &SchemaRef {
        &self.schema
    }
    fn execute(&self, _ctx: Arc<TaskContext>) -> SendableRecordBatchStream {
        Box::pin(Cursor { schema: self.schema.clone(), log: self.log.clone(), pos: 0 })
    }
}
fn feed(log: &Arc<Mutex<Log>>, rows: &[(i64, i64)]) {
    let mut l = log.lock().unwrap();
    l.batches.push(kv_batch(rows));
    for w in l.wakers.drain(..) {
        w.wake();
    }
}

fn make_ctx(batch_size: usize, with_sanity: bool) -> (SessionContext, Arc<Mutex<Log>>) {
    let cfg = SessionConfig::new().with_target_partitions(1).with_batch_size(batch_size);
    let mut b = SessionStateBuilder::new().with_config(cfg).with_default_features();
    if !with_sanity {
        let rules: Vec<Arc<dyn PhysicalOptimizerRule + Send + Sync>> = PhysicalOptimizer::new().rules.into_iter().filter(|r| r.name() != "SanityCheckPlan").collect();
        b = b.with_physical_optimizer_rules(rules);
    }
    let ctx = SessionContext::new_with_state(b.build());
    let log = Arc::new(Mutex::new(Log::default()));
    let endless = Arc::new(Endless { schema: kv_schema(), log: log.clone() });
    let table = StreamingTable::try_new(kv_schema(), vec![endless as Arc<dyn PartitionStream>])
        .unwrap()
        .with_infinite_table(true)
        .with_sort_order(vec![col("k").sort(true, false)]);
    ctx.register_table("s", Arc::new(table)).unwrap();
    let m = MemTable::try_new(kv_schema(), vec![vec![kv_batch(&[(1, 1), (2, 5), (2, 7), (3, 0)])]]).unwrap();
    ctx.register_table("m", Arc::new(m)).unwrap();
    (ctx, log)
}

// ------------------------------------------------------------------ (A) shapes

#[derive(Clone, Debug)]
enum Op {
    S,
    F(i64, Box<Op>),
    P(i64, Box<Op>),
    L(usize, Box<Op>),
    A(Box<Op>),
    U(Box<Op>, Box<Op>),
}
impl Op {
    fn sexp(&self) -> String {
        match self {
            Op::S => "s".into(),
            Op::F(lo, o) => format!("(f {lo} {})", o.sexp()),
            Op::P(a, o) => format!("(p {a} {})", o.sexp()),
            Op::L(n, o) => format!("(l {n} {})", o.sexp()),
            Op::A(o) => format!("(a {})", o.sexp()),
            Op::U(a, b) => format!("(u {} {})", a.sexp(), b.sexp()),
        }
    }
    fn sql(&self) -> String {
        match self {
            Op::S => "SELECT k, v FROM s".into(),
            Op::F(lo, o) => format!("SELECT k, v FROM ({}) WHERE v >= {lo}", o.sql()),
            Op::P(a, o) => format!("SELECT k, v + {a} AS v FROM ({})", o.sql()),
            Op::L(n, o) => format!("SELECT k, v FROM ({}) LIMIT {n}", o.sql()),
            Op::A(o) => format!("SELECT k, sum(v) AS v FROM ({}) GROUP BY k", o.sql()),
            Op::U(a, b) => format!("SELECT k, v FROM ({}) UNION ALL SELECT k, v FROM ({})", a.sql(), b.sql()),
        }
    }
    fn linear(&self) -> bool {
        match self {
            Op::S => true,
            Op::F(_, o) | Op::P(_, o) | Op::L(_, o) | Op::A(o) => o.linear(),
            Op::U(..) => false,
        }
    }
    fn has_limit(&self) -> bool {
        match self {
            Op::S => false,
            Op::L(..) => true,
            Op::F(_, o) | Op::P(_, o) | Op::A(o) => o.has_limit(),
            Op::U(a, b) => a.has_limit() || b.has_limit(),
        }
    }
    fn simple_chain(&self) -> bool {
        match self {
            Op::S => true,
            Op::F(_, o) | Op::P(_, o) | Op::L(_, o) => o.simple_chain(),
            _ => false,
        }
    }
    fn kinds(&self, out: &mut std::collections::BTreeSet<&'static str>) {
        match self {
            Op::S => {}
            Op::F(_, o) => {
                out.insert("filter");
                o.kinds(out)
            }
            Op::P(_, o) => {
                out.insert("project");
                o.kinds(out)
            }
            Op::L(_, o) => {
                out.insert("limit");
                o.kinds(out)
            }
            Op::A(o) => {
                out.insert("agg");
                o.kinds(out)
            }
            Op::U(a, b) => {
                out.insert("union");
                a.kinds(out);
                b.kinds(out)
            }
        }
    }
}
/// generates only `covered` shapes (LIMIT / aggregation above UNION-free inputs, no aggregation above LIMIT)
fn gen_linear(rng: &mut Rng, depth: u32, allow_limit: bool) -> Op {
    if depth == 0 || rng.chance(1, 5) {
        return Op::S;
    }
    match rng.below(10) {
        0..=2 => Op::F(rng.range(-3, 6), Box::new(gen_linear(rng, depth - 1, allow_limit))),
        3..=5 => Op::P(rng.range(-4, 9), Box::new(gen_linear(rng, depth - 1, allow_limit))),
        6 | 7 => Op::A(Box::new(gen_linear(rng, depth - 1, false))),
        _ => {
            if allow_limit {
                Op::L(rng.below(9) as usize, Box::new(gen_linear(rng, depth - 1, true)))
            } else {
                Op::P(1, Box::new(gen_linear(rng, depth - 1, false)))
            }
        }
    }
}
fn gen_op(rng: &mut Rng) -> Op {
    if rng.chance(1, 4) {
        let a = gen_linear(rng, 2, true);
        let b = gen_linear(rng, 2, true);
        let u = Op::U(Box::new(a), Box::new(b));
        match rng.below(3) {
            0 => u,
            1 => Op::F(rng.range(-3, 6), Box::new(u)),
            _ => Op::P(rng.range(-4, 9), Box::new(u)),
        }
    } else {
        gen_linear(rng, 3, true)
    }
}

fn noop_cx() -> Context<'static> {
    Context::from_waker(Waker::noop())
}

struct Running {
    streams: Vec<Option<SendableRecordBatchStream>>,
    delivered: Vec<(i64, i64)>,
    ended: usize,
    error: Option<String>,
}
impl Running {
    /// poll every output partition until all are Pending/ended; returns whether anything happened
    fn drain(&mut self) -> bool {
        let mut progress = false;
        let mut cx = noop_cx();
        for slot in self.streams.iter_mut() {
            loop {
                let Some(s) = slot.as_mut() else { break };
                match s.poll_next_unpin(&mut cx) {
                    Poll::Pending => break,
                    Poll::Ready(None) => {
                        *slot = None;
                        self.ended += 1;
                        progress = true;
                    }
                    Poll::Ready(Some(Err(e))) => {
                        self.error = Some(e.to_string());
                        *slot = None;
                        progress = true;
                    }
                    Poll::Ready(Some(Ok(b))) => {
                        progress = true;
                        let k = b.column(0).as_primitive::<Int64Type>();
                        let v = b.column(1).as_primitive::<Int64Type>();
                        for i in 0..b.num_rows() {
                            self.delivered.push((k.value(i), v.value(i)));
                        }
                    }
                }
            }
        }
        progress
    }
    async fn settle(&mut self) {
        let mut idle = 0;
        let mut rounds = 0;
        while idle < 3 && rounds < 10_000 {
            if self.drain() {
                idle = 0;
            } else {
                idle += 1;
            }
            // let tasks spawned by operators (if any) run
            tokio::task::yield_now().await;
            rounds += 1;
        }
    }
}

fn rows_sexp(rows: &[(i64, i64)]) -> String {
    format!("({})", rows.iter().map(|r| format!("({} {})", r.0, r.1)).collect::<Vec<_>>().join(" "))
}

async fn judge_cases(run: &mut Run, rng: &mut Rng) {
    let n = run.budget(400, 8000);
    let batch_size = 2usize;
    // operator buffers: each filter / aggregation / coalescer may hold back < batch_size rows; the
    // generator guarantees that at least every second input row passes every filter and that
    // the key advances at least every third row, so `slack` input rows flush every buffer
    let slack = 12usize;
    for i in 0..n {
        let op = gen_op(rng);
        let (ctx, log) = make_ctx(batch_size, true);
        let sql = op.sql();
        let mut kinds = std::collections::BTreeSet::new();
        op.kinds(&mut kinds);
        for k in &kinds {
            run.count(&format!("shape:{k}"));
        }
        let plan = match async { ctx.sql(&sql).await?.create_physical_plan().await }.await {
            Ok(p) => p,
            Err(e) => {
                let m = e.to_string();
                run.count(if m.contains("pipeline breaking") { "judge:rejected-at-planning" } else { "judge:planning-error" });
                // the plain streaming shapes must be plannable, otherwise the check is vacuous
                run.oracle(!op.simple_chain(), &format!("simple-chain-rejected {}", op.sexp()), &format!("`{sql}` over an unbounded ordered source was rejected: {m}"));
                continue;
            }
        };
        let parts = plan.output_partitioning().partition_count();
        let mut streams = vec![];
        let mut failed = None;
        for p in 0..parts {
            match plan.execute(p, ctx.task_ctx()) {
                Ok(s) => streams.push(Some(s)),
                Err(e) => failed = Some(e.to_string()),
            }
        }
        if let Some(e) = failed {
            run.oracle(false, &format!("execute-failed {}", op.sexp()), &e);
            continue;
        }
        let mut r = Running { streams, delivered: vec![], ended: 0, error: None };
        let total = 24 + rng.below(16) as usize;
        let mut rows: Vec<(i64, i64)> = vec![];
        let mut cps: Vec<(usize, usize)> = vec![];
        let mut key = rng.range(0, 3);
        r.settle().await;
        cps.push((0, r.delivered.len()));
        while rows.len() < total {
            let chunk = 1 + rng.below(3) as usize;
            let mut b = vec![];
            for _ in 0..chunk {
                let idx = rows.len() + b.len();
                if idx % 3 == 2 || rng.chance(1, 3) {
                    key += 1 + rng.below(2) as i64;
                }
                // every second row is large enough to pass every filter the generator can build
                let v = if idx % 2 == 1 { 20 + rng.range(0, 5) } else { rng.range(-5, 8) };
                b.push((key, v));
            }
            feed(&log, &b);
            rows.extend(b);
            r.settle().await;
            cps.push((rows.len(), r.delivered.len()));
        }
        if let Some(e) = &r.error {
            run.oracle(false, &format!("stream-error {}", op.sexp()), &format!("`{sql}`: {e}"));
            continue;
        }
        // an endless input may only end at a LIMIT
        run.oracle(
            r.ended == 0 || op.has_limit(),
            &format!("ended-without-limit {}", op.sexp()),
            &format!("`{sql}`: {} output partition(s) reported end of stream although the source never ends", r.ended),
        );
        let req = format!(
            "({} {} {slack} ({}) {})",
            op.sexp(),
            rows_sexp(&rows),
            cps.iter().map(|c| format!("({} {})", c.0, c.1)).collect::<Vec<_>>().join(" "),
            rows_sexp(&r.delivered)
        );
        run.count(if op.linear() { "judge:linear" } else { "judge:with-union" });
        run.case("judge", &req, "ok", kinds.len() >= 2 && !r.delivered.is_empty());
        drop(r);
    }
}

/// `held` (equality): a plain filter over the endless source hands on exactly the completed
/// batches of its output coalescer.
async fn held_cases(run: &mut Run, rng: &mut Rng) {
    let n = run.budget(200, 3000);
    for _ in 0..n {
        let bs = *rng.pick(&[2usize, 3, 5, 8]);
        let lo = rng.range(-2, 12);
        let (ctx, log) = make_ctx(bs, true);
        let sql = format!("SELECT k, v FROM s WHERE v >= {lo}");
        let Ok(plan) = async { ctx.sql(&sql).await?.create_physical_plan().await }.await else {
            run.oracle(false, &format!("held-plan {sql}"), "planning failed");
            continue;
        };
        let Ok(st) = plan.execute(0, ctx.task_ctx()) else { continue };
        let mut r = Running { streams: vec![Some(st)], delivered: vec![], ended: 0, error: None };
        let total = 5 + rng.below(30) as usize;
        let mut rows: Vec<(i64, i64)> = vec![];
        while rows.len() < total {
            // one row per input batch: with larger input batches arrow's coalescer may pass a
            // "large" batch (> batch_size / 2 rows) through unmerged, which the model does not describe
            let chunk = 1usize;
            let b: Vec<(i64, i64)> = (0..chunk).map(|j| ((rows.len() + j) as i64, rng.range(-5, 15))).collect();
            feed(&log, &b);
            rows.extend(b);
            r.settle().await;
        }
        let passing = rows.iter().filter(|x| x.1 >= lo).count();
        run.count(if r.delivered.len() < passing { "held:rows-held-back" } else { "held:all-delivered" });
        run.case("held", &format!("({bs} {lo} {})", rows_sexp(&rows)), &r.delivered.len().to_string(), passing >= 1 && passing % bs != 0);
    }
}

/// the liveness gap of the filter's output coalescer, as an implementation-level oracle: one
/// passing row followed by rows that do not pass — the passing row must be delivered while the
/// input continues.
async fn sparse_filter_probe(run: &mut Run) {
    for bs in [2usize, 8192] {
        let (ctx, log) = make_ctx(bs, true);
        let sql = "SELECT k, v FROM s WHERE v >= 100";
        let Ok(plan) = async { ctx.sql(sql).await?.create_physical_plan().await }.await else {
            run.note("sparse-filter probe: planning failed");
            return;
        };
        let Ok(s) = plan.execute(0, ctx.task_ctx()) else { return };
        let mut r = Running { streams: vec![Some(s)], delivered: vec![], ended: 0, error: None };
        feed(&log, &[(1, 100)]);
        r.settle().await;
        let after_pass = r.delivered.len();
        for i in 0..200 {
            feed(&log, &[(2 + i, 0)]);
            r.settle().await;
        }
        let after_200 = r.delivered.len();
        run.note(&format!(
            "sparse-filter probe (batch_size={bs}): `{sql}`; fed 1 passing row -> {after_pass} delivered; then 200 non-passing rows (input continues) -> {after_200} delivered"
        ));
        run.count(&format!("sparse-filter-probe:bs{bs}:{}", if after_200 >= 1 { "delivered" } else { "held-back" }));
        run.oracle(
            after_200 >= 1,
            &format!("held-back FilterExec batch_size={bs} :: {sql} :: input (1,100) then 200 rows (k,0)"),
            &format!("the row (1,100) passes the filter and is determined by the first input row, but after 200 further input rows (none passing) {after_200} rows have been delivered: FilterExecStream only emits completed batches of its LimitedBatchCoalescer and does not flush when the input is Pending"),
        );
    }
}

// ------------------------------------------------------------------ (B) declared properties

fn show(b: Boundedness, e: EmissionType) -> String {
    format!(
        "{}:{}",
        match b {
            Boundedness::Bounded => "B",
            Boundedness::Unbounded { requires_infinite_memory: false } => "U0",
            Boundedness::Unbounded { requires_infinite_memory: true } => "U1",
        },
        match e {
            EmissionType::Incremental => "I",
            EmissionType::Final => "F",
            EmissionType::Both => "X",
        }
    )
}

/// export to the model's plan language; `None` = contains an operator outside the model
fn export(p: &Arc<dyn ExecutionPlan>, decl: &mut Vec<String>) -> Option<String> {
    decl.push(show(p.boundedness(), p.pipeline_behavior()));
    let ch = p.children();
    let name = p.name();
    Some(match name {
        "StreamingTableExec" => format!("(stream {})", if p.downcast_ref::<StreamingTableExec>()?.is_infinite() { "t" } else { "f" }),
        "DataSourceExec" => "(mem)".into(),
        "FilterExec" | "ProjectionExec" | "CoalesceBatchesExec" | "CoalescePartitionsExec" | "RepartitionExec" | "SortPreservingMergeExec" | "BoundedWindowAggExec" | "CooperativeExec" => {
            format!("(pass {})", export(ch[0], decl)?)
        }
        "GlobalLimitExec" | "LocalLimitExec" => format!("(limit {})", export(ch[0], decl)?),
        "SortExec" => {
            let s = p.downcast_ref::<SortExec>()?;
            let (_, sat) = s.input().equivalence_properties().extract_common_sort_prefix(s.expr().clone()).ok()?;
            format!("(sort {} {} {})", if sat { "t" } else { "f" }, if s.fetch().is_some() { "t" } else { "f" }, export(ch[0], decl)?)
        }
        "AggregateExec" => {
            let a = p.downcast_ref::<AggregateExec>()?;
            if a.group_expr().has_grouping_set() {
                return None;
            }
            format!("(agg {} {})", if *a.input_order_mode() == InputOrderMode::Linear { "t" } else { "f" }, export(ch[0], decl)?)
        }
        "WindowAggExec" => format!("(wagg {})", export(ch[0], decl)?),
        "UnionExec" => {
            let mut parts = vec![];
            for c in ch {
                parts.push(export(c, decl)?);
            }
            format!("(union {})", parts.join(" "))
        }
        "CrossJoinExec" => {
            let l = export(ch[0], decl)?;
            let r = export(ch[1], decl)?;
            format!("(cross {l} {r})")
        }
        _ => return None,
    })
}

fn prop_queries(rng: &mut Rng) -> Vec<String> {
    let srcs = ["s", "m"];
    let mut q = vec![];
    for a in srcs {
        q.push(format!("SELECT k, v FROM {a} WHERE v > {}", rng.range(0, 5)));
        q.push(format!("SELECT k, v + 1 FROM {a} LIMIT {}", 1 + rng.below(5)));
        q.push(format!("SELECT k, sum(v) FROM {a} GROUP BY k"));
        q.push(format!("SELECT v, count(*) FROM {a} GROUP BY v"));
        q.push(format!("SELECT k, v FROM {a} ORDER BY k"));
        q.push(format!("SELECT k, v FROM {a} ORDER BY v"));
        q.push(format!("SELECT k, v FROM {a} ORDER BY v LIMIT 3"));
        q.push(format!("SELECT k, v FROM {a} ORDER BY k LIMIT 3"));
        q.push(format!("SELECT k, v FROM (SELECT k, v FROM {a} LIMIT 5) ORDER BY v"));
        q.push(format!("SELECT v, count(*) FROM (SELECT k, v FROM {a} LIMIT 5) GROUP BY v"));
        q.push(format!("SELECT k, sum(v) OVER (ORDER BY k ROWS BETWEEN 1 PRECEDING AND CURRENT ROW) FROM {a}"));
        q.push(format!("SELECT k, sum(v) OVER (ORDER BY k ROWS BETWEEN UNBOUNDED PRECEDING AND UNBOUNDED FOLLOWING) FROM {a}"));
        q.push(format!("SELECT k, sum(v) OVER (PARTITION BY v) FROM {a}"));
        q.push(format!("SELECT count(*) FROM {a}"));
        q.push(format!("SELECT DISTINCT k FROM {a}"));
        for b2 in srcs {
            q.push(format!("SELECT k, v FROM {a} UNION ALL SELECT k, v FROM {b2} WHERE v > 2"));
            q.push(format!("SELECT k, v FROM {a} UNION ALL SELECT k, v FROM (SELECT k, v FROM {b2} ORDER BY v)"));
            q.push(format!("SELECT k, v FROM {a} UNION ALL SELECT k, sum(v) FROM {b2} GROUP BY k"));
            q.push(format!("SELECT x.k, y.v FROM {a} x CROSS JOIN {b2} y"));
            q.push(format!("SELECT k, v FROM (SELECT k, v FROM {a} UNION ALL SELECT k, v FROM {b2}) ORDER BY v LIMIT 2"));
        }
    }
    q
}

async fn props_cases(run: &mut Run, rng: &mut Rng) {
    let rounds = run.budget(3, 30);
    for _ in 0..rounds {
        for sql in prop_queries(rng) {
            let (ctx_nosanity, _l1) = make_ctx(4, false);
            let (ctx_default, _l2) = make_ctx(4, true);
            let default_verdict = match async { ctx_default.sql(&sql).await?.create_physical_plan().await }.await {
                Ok(_) => "acc".to_string(),
                Err(e) => {
                    let m = e.to_string();
                    if m.contains("pipeline breaking") { "rej".into() } else { format!("err:{}", m.chars().take(80).collect::<String>()) }
                }
            };
            let plan = match async { ctx_nosanity.sql(&sql).await?.create_physical_plan().await }.await {
                Ok(p) => p,
                Err(e) => {
                    run.count("props:planning-error-without-sanity-rule");
                    run.note(&format!("`{sql}` failed to plan even without SanityCheckPlan: {}", e.to_string().chars().take(120).collect::<String>()));
                    continue;
                }
            };
            let state = ctx_nosanity.state();
            let verdict = match SanityCheckPlan::new().optimize(Arc::clone(&plan), state.config_options()) {
                Ok(_) => "acc".to_string(),
                Err(e) => {
                    let m = e.to_string();
                    if m.contains("pipeline breaking") { "rej".into() } else { format!("err:{}", m.chars().take(80).collect::<String>()) }
                }
            };
            run.count(&format!("props:verdict:{}", verdict.chars().take(3).collect::<String>()));
            // the rule alone and the default pipeline must agree
            run.oracle(
                verdict == default_verdict,
                &format!("sanity-verdict-differs {sql}"),
                &format!("SanityCheckPlan on the final plan says `{verdict}`, planning with the default rules says `{default_verdict}`"),
            );
            let mut decl = vec![];
            match export(&plan, &mut decl) {
                Some(sexp) => {
                    let distinct_ops = sexp.matches('(').count();
                    run.case("props", &sexp, &format!("{}/{}", decl.join(","), verdict), distinct_ops >= 3);
                }
                None => run.count("props:operator-outside-model"),
            }
            // implementation-level oracle: the pipeline breakers of the property text are rejected over `s`
            let must_reject = sql.contains("FROM s ORDER BY v") && !sql.contains("UNION") && !sql.contains("(SELECT k, v FROM s LIMIT");
            if must_reject {
                run.oracle(default_verdict == "rej", &format!("breaker-accepted {sql}"), &format!("`{sql}` over an endless source was not rejected at planning time: {default_verdict}"));
            }
        }
    }
}

async fn probe() {
    let (ctx, _log) = make_ctx(4, true);
    for sql in [
        "SELECT k, v + 7 AS v FROM (SELECT k, v + 7 AS v FROM (SELECT k, v + 5 AS v FROM m))",
        "SELECT k, v + 7 AS v FROM (SELECT k, v + 7 AS v FROM (SELECT k, v FROM (SELECT k, v + 5 AS v FROM m) WHERE v >= 0))",
        "SELECT k, v + 7 AS v FROM (SELECT k, v + 7 AS v FROM (SELECT k, v + 5 AS v FROM m) LIMIT 3)",
        "SELECT k, v + 7 AS v FROM (SELECT k, v FROM (SELECT k, v + 7 AS v FROM (SELECT k, v + 5 AS v FROM m)) WHERE v > -100)",
        "SELECT k, v * 2 AS v FROM (SELECT k, v * 2 AS v FROM (SELECT k, v + 5 AS v FROM m))",
    ] {
        let df = ctx.sql(sql).await.unwrap();
        let plan = df.clone().create_physical_plan().await.unwrap();
        let rows = df.collect().await.unwrap();
        println!("SQL {sql}\n{}\n{}", datafusion_physical_plan::displayable(plan.as_ref()).indent(false), arrow::util::pretty::pretty_format_batches(&rows).unwrap());
    }
}

pub fn run(run: &mut Run, args: &Args) {
    hutil::quiet_panics();
    if args.tier == "probe" {
        tokio::runtime::Builder::new_current_thread().enable_all().build().unwrap().block_on(probe());
        return;
    }
    let mut rng = Rng::new(args.seed);
    let rt = tokio::runtime::Builder::new_current_thread().enable_all().build().unwrap();
    rt.block_on(async {
        judge_cases(run, &mut rng).await;
        held_cases(run, &mut rng).await;
        sparse_filter_probe(run).await;
        props_cases(run, &mut rng).await;
    });
    let _ = VecDeque::<u8>::new();
}
