//! C20 — execution errors always surface; no truncated result counts as success.
//!
//! Fault enumeration on the real engine:
//!   * a failing `TableProvider` (a `StreamingTable` whose partition streams yield `Err` at batch k of
//!     partition p — every (p, k) of the source is enumerated),
//!   * a failing scalar UDF (error when it meets a chosen value — i.e. at row k),
//!   * a memory limit with the disk disabled / limited (reservation and spill-write failures),
//!   × operator shapes: filter, projection, sort, top-k, aggregate, distinct, window, hash join
//!     (fault in build or probe side), sort-merge join, nested-loop join, cross join, union,
//!     repartition/coalesce (target_partitions 1 / 3).
//! Implementation-level oracle (`run.oracle`): with a fault that is reached, the stream must yield `Err`
//!   within the deadline, without panic; the rows streamed before the error must be contained in the
//!   fault-free result (a row-prefix of it for order-preserving single-partition pipelines); without a
//!   fault the query must succeed.
//! Model correspondence (`run.case`, equality): random plans over the vocabulary
//!   filter / udf / sort / count / join / union are built BOTH as SQL over failing providers and as a
//!   Lean `Plan`; `collect` must agree: `err` or `ok <sorted rows>`.
use std::fmt;
use std::sync::Arc;
use std::time::Duration;

use arrow::array::{ArrayRef, Int64Array, RecordBatch};
use arrow::datatypes::{DataType, Field, Schema, SchemaRef};
use datafusion::catalog::streaming::StreamingTable;
use datafusion::execution::runtime_env::RuntimeEnvBuilder;
use datafusion::logical_expr::{ColumnarValue, Volatility, create_udf};
use datafusion::physical_plan::stream::RecordBatchStreamAdapter;
use datafusion::physical_plan::streaming::PartitionStream;
use datafusion::prelude::{SessionConfig, SessionContext};
use datafusion_common::{DataFusionError, Result};
use datafusion_execution::disk_manager::{DiskManagerBuilder, DiskManagerMode};
use datafusion_execution::{SendableRecordBatchStream, TaskContext};
use futures::StreamExt;
use hutil::{Args, Rng, Run};

fn schema1() -> SchemaRef {
    Arc::new(Schema::new(vec![Field::new("v", DataType::Int64, false)]))
}

/// one partition of a failing provider: batches, `None` = the injected error
#[derive(Clone, Debug)]
struct FaultyPartition {
    schema: SchemaRef,
    items: Vec<Option<Vec<i64>>>,
    tag: usize,
}
impl PartitionStream for FaultyPartition {
    fn schema(&self) -> &SchemaRef {
        &self.schema
    }
    fn execute(&self, _ctx: Arc<TaskContext>) -> SendableRecordBatchStream {
        let schema = self.schema.clone();
        let tag = self.tag;
        let items: Vec<Result<RecordBatch>> = self
            .items
            .iter()
            .map(|it| match it {
                Some(vs) => Ok(RecordBatch::try_new(schema.clone(), vec![Arc::new(Int64Array::from(vs.clone())) as ArrayRef]).unwrap()),
                None => Err(DataFusionError::Execution(format!("verif-injected source fault #{tag}"))),
            })
            .collect();
        Box::pin(RecordBatchStreamAdapter::new(self.schema.clone(), futures::stream::iter(items)))
    }
}

/// a source table: partitions of batches, with at most one fault (partition, position)
#[derive(Clone, Debug)]
struct Src {
    parts: Vec<Vec<Vec<i64>>>,
    fault: Option<(usize, usize)>,
}
impl Src {
    fn provider(&self, tag: usize) -> Arc<StreamingTable> {
        let parts: Vec<Arc<dyn PartitionStream>> = self
            .parts
            .iter()
            .enumerate()
            .map(|(p, bs)| {
                let mut items: Vec<Option<Vec<i64>>> = bs.iter().cloned().map(Some).collect();
                if let Some((fp, k)) = self.fault {
                    if fp == p {
                        items.insert(k.min(items.len()), None);
                    }
                }
                Arc::new(FaultyPartition { schema: schema1(), items, tag }) as Arc<dyn PartitionStream>
            })
            .collect();
        Arc::new(StreamingTable::try_new(schema1(), parts).unwrap())
    }
    /// transcript of partition p for the model
    fn sexp_part(&self, p: usize, tag: usize) -> String {
        let mut s = String::from("(src");
        let mut items: Vec<Option<&Vec<i64>>> = self.parts[p].iter().map(Some).collect();
        if let Some((fp, k)) = self.fault {
            if fp == p {
                items.insert(k.min(items.len()), None);
            }
        }
        for it in items {
            match it {
                Some(vs) => {
                    s.push_str(" (b");
                    for v in vs {
                        s.push_str(&format!(" {v}"));
                    }
                    s.push(')');
                }
                None => s.push_str(&format!(" (e {tag})")),
            }
        }
        s.push(')');
        s
    }
    /// the whole table as a model plan: partitions coalesced (any schedule — the outcome kind and the
    /// row multiset do not depend on it)
    fn sexp(&self, tag: usize) -> String {
        let mut acc = self.sexp_part(0, tag);
        for p in 1..self.parts.len() {
            acc = format!("(union (1 0) {acc} {})", self.sexp_part(p, tag));
        }
        acc
    }
}

fn gen_src(rng: &mut Rng, max_parts: usize) -> Src {
    let np = 1 + rng.below(max_parts as u64) as usize;
    let parts = (0..np)
        .map(|_| {
            let nb = rng.below(4) as usize;
            (0..nb)
                .map(|_| {
                    let n = *rng.pick(&[0usize, 1, 2, 5]);
                    (0..n).map(|_| rng.range(0, 6)).collect()
                })
                .collect()
        })
        .collect();
    Src { parts, fault: None }
}

fn boom_udf(bad: i64) -> datafusion::logical_expr::ScalarUDF {
    create_udf(
        "boom",
        vec![DataType::Int64],
        DataType::Int64,
        Volatility::Volatile,
        Arc::new(move |args: &[ColumnarValue]| {
            let arr = match &args[0] {
                ColumnarValue::Array(a) => a.clone(),
                ColumnarValue::Scalar(s) => s.to_array()?,
            };
            let a = arr.as_any().downcast_ref::<Int64Array>().unwrap();
            if a.iter().any(|v| v == Some(bad)) {
                return Err(DataFusionError::Execution(format!("verif-injected udf fault on value {bad}")));
            }
            let out: Int64Array = a.iter().map(|v| v.map(|x| x + 1)).collect();
            Ok(ColumnarValue::Array(Arc::new(out)))
        }),
    )
}

#[derive(Debug)]
enum Seen {
    Ok(Vec<String>),
    Err(Vec<String>, String),
    Panic(String),
    Hang,
}

const DEADLINE: Duration = Duration::from_secs(30);

struct Setup {
    tables: Vec<(String, Src)>,
    udf_bad: i64,
    partitions: usize,
    batch_size: usize,
    mem_limit: Option<usize>,
    disk_off: bool,
    prefer_hash_join: bool,
    /// join dynamic filters pushed into the probe side (on by default in the engine)
    dyn_filters: bool,
}

fn fmt_rows(b: &RecordBatch) -> Vec<String> {
    use arrow::util::display::{ArrayFormatter, FormatOptions};
    let opt = FormatOptions::default().with_null("NULL");
    let fs: Vec<_> = b.columns().iter().map(|c| ArrayFormatter::try_new(c.as_ref(), &opt).unwrap()).collect();
    (0..b.num_rows()).map(|r| fs.iter().map(|f| f.value(r).to_string()).collect::<Vec<_>>().join("|")).collect()
}

fn run_sql(setup: &Setup, sql: &str) -> Seen {
    let (tx, rx) = std::sync::mpsc::channel();
    let tables: Vec<(String, Arc<StreamingTable>)> = setup.tables.iter().enumerate().map(|(i, (n, s))| (n.clone(), s.provider(i))).collect();
    let sql = sql.to_string();
    let (parts, bs, bad, mem, disk_off, phj, dynf) = (setup.partitions, setup.batch_size, setup.udf_bad, setup.mem_limit, setup.disk_off, setup.prefer_hash_join, setup.dyn_filters);
    std::thread::spawn(move || {
        let r = hutil::catch(std::panic::AssertUnwindSafe(|| {
            let rt = tokio::runtime::Builder::new_current_thread().enable_all().build().unwrap();
            let mut rb = RuntimeEnvBuilder::new();
            if let Some(m) = mem {
                rb = rb.with_memory_limit(m, 1.0);
            }
            if disk_off {
                rb = rb.with_disk_manager_builder(DiskManagerBuilder::default().with_mode(DiskManagerMode::Disabled));
            }
            let cfg = SessionConfig::new()
                .with_target_partitions(parts)
                .with_batch_size(bs)
                .with_sort_spill_reservation_bytes(0)
                .set_bool("datafusion.optimizer.prefer_hash_join", phj)
                .set_bool("datafusion.optimizer.enable_dynamic_filter_pushdown", dynf);
            let ctx = SessionContext::new_with_config_rt(cfg, rb.build_arc().unwrap());
            for (n, t) in tables {
                ctx.register_table(n.as_str(), t).unwrap();
            }
            ctx.register_udf(boom_udf(bad));
            rt.block_on(async {
                let mut rows = vec![];
                let res: Result<()> = async {
                    let df = ctx.sql(&sql).await?;
                    let mut st = df.execute_stream().await?;
                    while let Some(b) = st.next().await {
                        rows.extend(fmt_rows(&b?));
                    }
                    Ok(())
                }
                .await;
                match res {
                    Ok(()) => Seen::Ok(rows),
                    Err(e) => Seen::Err(rows, e.to_string()),
                }
            })
        }));
        let _ = tx.send(match r {
            Ok(s) => s,
            Err(p) => Seen::Panic(p),
        });
    });
    rx.recv_timeout(DEADLINE).unwrap_or(Seen::Hang)
}

// ------------------------------------------------------------------ (a) oracle: operator shapes × fault points

struct Shape {
    name: &'static str,
    sql: &'static str,
    /// tables whose faults are certainly reached (all rows consumed) for this shape
    faultable: &'static [&'static str],
    /// rows keep their source order (single partition, streaming operators only)
    ordered: bool,
}

const SHAPES: &[Shape] = &[
    Shape { name: "filter", sql: "SELECT v FROM a WHERE v >= 1", faultable: &["a"], ordered: true },
    Shape { name: "project", sql: "SELECT v + 1, v * 2 FROM a", faultable: &["a"], ordered: true },
    Shape { name: "udf", sql: "SELECT boom(v) FROM a", faultable: &["a"], ordered: true },
    Shape { name: "sort", sql: "SELECT v FROM a ORDER BY v", faultable: &["a"], ordered: false },
    Shape { name: "topk", sql: "SELECT v FROM a ORDER BY v DESC LIMIT 1000", faultable: &["a"], ordered: false },
    Shape { name: "agg", sql: "SELECT v, count(*), sum(v) FROM a GROUP BY v", faultable: &["a"], ordered: false },
    Shape { name: "agg-scalar", sql: "SELECT count(v), min(v) FROM a", faultable: &["a"], ordered: false },
    Shape { name: "distinct", sql: "SELECT DISTINCT v FROM a", faultable: &["a"], ordered: false },
    Shape { name: "window", sql: "SELECT v, sum(v) OVER (PARTITION BY v % 2 ORDER BY v) FROM a", faultable: &["a"], ordered: false },
    Shape { name: "hash-join", sql: "SELECT a.v, b.v FROM a JOIN b ON a.v = b.v", faultable: &["a", "b"], ordered: false },
    Shape { name: "left-join", sql: "SELECT a.v, b.v FROM a LEFT JOIN b ON a.v = b.v", faultable: &["a", "b"], ordered: false },
    Shape { name: "nl-join", sql: "SELECT a.v, b.v FROM a JOIN b ON a.v < b.v", faultable: &["a", "b"], ordered: false },
    Shape { name: "cross-join", sql: "SELECT a.v, b.v FROM a CROSS JOIN b", faultable: &["a", "b"], ordered: false },
    Shape { name: "semi-join", sql: "SELECT v FROM a WHERE v IN (SELECT v FROM b)", faultable: &["a", "b"], ordered: false },
    Shape { name: "union", sql: "SELECT v FROM a UNION ALL SELECT v + 100 FROM b", faultable: &["a", "b"], ordered: false },
    Shape { name: "union-distinct", sql: "SELECT v FROM a UNION SELECT v FROM b", faultable: &["a", "b"], ordered: false },
    Shape { name: "sort-of-agg-of-union", sql: "SELECT v, count(*) c FROM (SELECT v FROM a UNION ALL SELECT v FROM b) GROUP BY v ORDER BY v", faultable: &["a", "b"], ordered: false },
    Shape { name: "udf-under-agg", sql: "SELECT sum(boom(v)) FROM a", faultable: &["a"], ordered: false },
];

fn non_empty(s: &Src) -> bool {
    s.parts.iter().any(|p| p.iter().any(|b| !b.is_empty()))
}

fn contained(prefix: &[String], full: &[String]) -> bool {
    let mut f: Vec<&String> = full.iter().collect();
    f.sort();
    let mut p: Vec<&String> = prefix.iter().collect();
    p.sort();
    // multiset inclusion
    let (mut i, mut j) = (0, 0);
    while i < p.len() && j < f.len() {
        if p[i] == f[j] {
            i += 1;
            j += 1;
        } else if p[i] > f[j] {
            j += 1;
        } else {
            return false;
        }
    }
    i == p.len()
}

fn oracle_shapes(run: &mut Run, rng: &mut Rng) {
    let rounds = run.budget(3, 14);
    for round in 0..rounds {
        let a = loop {
            let s = gen_src(rng, 3);
            if non_empty(&s) {
                break s;
            }
        };
        let b = loop {
            let s = gen_src(rng, 2);
            if non_empty(&s) {
                break s;
            }
        };
        for shape in SHAPES {
            for &(parts, bs, phj) in &[(1usize, 8192usize, true), (3, 2, true), (3, 8192, false)] {
                if !run.thorough() && (round + shape.name.len() as u64) % 3 != (parts as u64 + bs as u64) % 3 {
                    continue;
                }
                let mk = |fa: Option<(usize, usize)>, fb: Option<(usize, usize)>, bad: i64| Setup {
                    tables: vec![("a".into(), Src { fault: fa, ..a.clone() }), ("b".into(), Src { fault: fb, ..b.clone() })],
                    udf_bad: bad,
                    partitions: parts,
                    batch_size: bs,
                    mem_limit: None,
                    disk_off: false,
                    prefer_hash_join: phj,
                    dyn_filters: true,
                };
                let cfg = format!("shape={} parts={parts} batch={bs} hashjoin={phj} a={:?} b={:?}", shape.name, a.parts, b.parts);
                // fault-free run
                let clean = match run_sql(&mk(None, None, -777), shape.sql) {
                    Seen::Ok(r) => r,
                    other => {
                        run.oracle(false, &format!("fault-free run failed {cfg}"), &format!("{other:?}"));
                        continue;
                    }
                };
                run.oracle(true, "", "");
                // every source fault point
                let mut points: Vec<(&str, usize, usize)> = vec![];
                for t in shape.faultable {
                    let s = if *t == "a" { &a } else { &b };
                    for (p, bsx) in s.parts.iter().enumerate() {
                        for k in 0..=bsx.len() {
                            points.push((t, p, k));
                        }
                    }
                }
                for (t, p, k) in points {
                    // joins: a fault in one side is certainly reached only if the other side has rows
                    let setup = if t == "a" { mk(Some((p, k)), None, -777) } else { mk(None, Some((p, k)), -777) };
                    let seen = run_sql(&setup, shape.sql);
                    run.count(&format!("fault_source_{}", shape.name));
                    judge(run, &format!("source-fault table={t} partition={p} batch={k} {cfg}"), seen, &clean, shape.ordered && parts == 1);
                }
                // UDF fault at each distinct value present (i.e. at the rows holding it)
                if shape.sql.contains("boom") {
                    let mut vals: Vec<i64> = a.parts.iter().flatten().flatten().cloned().collect();
                    vals.sort();
                    vals.dedup();
                    for bad in vals {
                        let seen = run_sql(&mk(None, None, bad), shape.sql);
                        run.count(&format!("fault_udf_{}", shape.name));
                        judge(run, &format!("udf-fault value={bad} {cfg}"), seen, &clean, shape.ordered && parts == 1);
                    }
                }
            }
        }
    }
}

fn judge(run: &mut Run, sig: &str, seen: Seen, clean: &[String], ordered: bool) {
    match seen {
        Seen::Err(prefix, _msg) => {
            run.count("outcome_err");
            if !prefix.is_empty() {
                run.count("outcome_err_after_some_rows");
            }
            let ok = if ordered { prefix.len() <= clean.len() && prefix[..] == clean[..prefix.len()] } else { contained(&prefix, clean) };
            run.oracle(
                ok,
                &format!("ok-prefix {sig}"),
                &format!("rows streamed before the error {prefix:?} are not {} the fault-free result {clean:?}", if ordered { "a prefix of" } else { "contained in" }),
            );
        }
        Seen::Ok(rows) => {
            run.count("outcome_ok_despite_fault");
            run.oracle(false, &format!("swallowed {sig}"), &format!("the stream ended successfully with {} rows (fault-free: {} rows) although the fault was injected", rows.len(), clean.len()));
        }
        Seen::Panic(p) => run.oracle(false, &format!("panic {sig}"), &p),
        Seen::Hang => run.oracle(false, &format!("hang {sig}"), "no result within 30 s"),
    }
}

// ------------------------------------------------------------------ (b) resource failures inside operators

fn oracle_resources(run: &mut Run, rng: &mut Rng) {
    let n = run.budget(6, 60);
    for i in 0..n {
        let rows = *rng.pick(&[2000usize, 6000]);
        let vals: Vec<i64> = (0..rows).map(|_| rng.range(0, 1_000_000)).collect();
        let parts: Vec<Vec<Vec<i64>>> = vec![vals.chunks(500).map(|c| c.to_vec()).collect()];
        let a = Src { parts, fault: None };
        let sql = *rng.pick(&["SELECT v FROM a ORDER BY v", "SELECT v, count(*) FROM a GROUP BY v", "SELECT DISTINCT v FROM a"]);
        let mk = |mem: Option<usize>, disk_off: bool| Setup {
            tables: vec![("a".into(), a.clone())],
            udf_bad: -777,
            partitions: *[1usize, 2].get(i as usize % 2).unwrap(),
            batch_size: 512,
            mem_limit: mem,
            disk_off,
            prefer_hash_join: true,
            dyn_filters: true,
        };
        let clean = match run_sql(&mk(None, false), sql) {
            Seen::Ok(mut r) => {
                r.sort();
                r
            }
            other => {
                run.oracle(false, &format!("resources: fault-free run failed #{i} {sql}"), &format!("{other:?}"));
                continue;
            }
        };
        let mem = *rng.pick(&[1usize, 10_000, 60_000, 200_000]);
        let sig = format!("resource-fault mem={mem} disk=off rows={rows} `{sql}`");
        run.count("fault_resources");
        match run_sql(&mk(Some(mem), true), sql) {
            Seen::Ok(mut r) => {
                r.sort();
                run.count("resources_fit");
                run.oracle(r == clean, &format!("truncated {sig}"), &format!("Ok with {} rows, fault-free has {}", r.len(), clean.len()));
            }
            Seen::Err(prefix, _) => {
                run.count("outcome_err");
                run.oracle(contained(&prefix, &clean), &format!("ok-prefix {sig}"), "rows streamed before the error are not contained in the fault-free result");
            }
            Seen::Panic(p) => run.oracle(false, &format!("panic {sig}"), &p),
            Seen::Hang => run.oracle(false, &format!("hang {sig}"), "no result within 30 s"),
        }
    }
}

// ------------------------------------------------------------------ (c) model correspondence on random plans

enum P {
    Src(usize),
    Filter(i64, Box<P>),
    Udf(Box<P>),
    Sort(Box<P>),
    Count(Box<P>),
    Join(Box<P>, Box<P>),
    Union(Box<P>, Box<P>),
}

fn gen_plan(rng: &mut Rng, depth: u32, nsrc: &mut usize, udf_used: &mut bool) -> P {
    if depth == 0 || rng.chance(1, 4) {
        *nsrc += 1;
        return P::Src(*nsrc - 1);
    }
    match rng.below(7) {
        0 => P::Filter(rng.range(-1, 4), Box::new(gen_plan(rng, depth - 1, nsrc, udf_used))),
        1 if !*udf_used => {
            *udf_used = true;
            P::Udf(Box::new(gen_plan(rng, depth - 1, nsrc, udf_used)))
        }
        2 => P::Sort(Box::new(gen_plan(rng, depth - 1, nsrc, udf_used))),
        3 => P::Count(Box::new(gen_plan(rng, depth - 1, nsrc, udf_used))),
        4 => P::Join(Box::new(gen_plan(rng, depth - 1, nsrc, udf_used)), Box::new(gen_plan(rng, depth - 1, nsrc, udf_used))),
        _ => P::Union(Box::new(gen_plan(rng, depth - 1, nsrc, udf_used)), Box::new(gen_plan(rng, depth - 1, nsrc, udf_used))),
    }
}

impl P {
    fn sql(&self) -> String {
        match self {
            P::Src(i) => format!("SELECT v FROM s{i}"),
            P::Filter(c, p) => format!("SELECT v FROM ({}) WHERE v > {c}", p.sql()),
            P::Udf(p) => format!("SELECT boom(v) AS v FROM ({})", p.sql()),
            P::Sort(p) => format!("SELECT v FROM ({}) ORDER BY v", p.sql()),
            P::Count(p) => format!("SELECT count(v) AS v FROM ({})", p.sql()),
            P::Join(b, p) => format!("SELECT pr.v AS v FROM ({}) AS bu JOIN ({}) AS pr ON bu.v = pr.v", b.sql(), p.sql()),
            P::Union(l, r) => format!("SELECT v FROM ({}) UNION ALL SELECT v FROM ({})", l.sql(), r.sql()),
        }
    }
    fn sexp(&self, srcs: &[Src], bad: i64) -> String {
        match self {
            P::Src(i) => srcs[*i].sexp(*i),
            P::Filter(c, p) => format!("(filter {c} {})", p.sexp(srcs, bad)),
            P::Udf(p) => format!("(udf {bad} {})", p.sexp(srcs, bad)),
            P::Sort(p) => format!("(sort {})", p.sexp(srcs, bad)),
            P::Count(p) => format!("(count {})", p.sexp(srcs, bad)),
            P::Join(b, p) => format!("(join {} {})", b.sexp(srcs, bad), p.sexp(srcs, bad)),
            P::Union(l, r) => format!("(union (1 0 1) {} {})", l.sexp(srcs, bad), r.sexp(srcs, bad)),
        }
    }
    fn has_join(&self) -> bool {
        match self {
            P::Src(_) => false,
            P::Filter(_, p) | P::Udf(p) | P::Sort(p) | P::Count(p) => p.has_join(),
            P::Join(..) => true,
            P::Union(l, r) => l.has_join() || r.has_join(),
        }
    }
    /// is some join below a filter?  (`PushDownFilter` moves such a filter into the join inputs, which can
    /// empty one of them)
    fn filter_over_join(&self, under_filter: bool) -> bool {
        match self {
            P::Src(_) => false,
            P::Filter(_, p) => p.filter_over_join(true),
            P::Udf(p) | P::Sort(p) | P::Count(p) => p.filter_over_join(under_filter),
            P::Join(b, p) => under_filter || b.filter_over_join(false) || p.filter_over_join(false),
            P::Union(l, r) => l.filter_over_join(under_filter) || r.filter_over_join(under_filter),
        }
    }
    /// fault-free rows of this node (reference evaluation of the tiny vocabulary) and whether every
    /// join below has two non-empty inputs.  A join may legitimately never poll one side when the other
    /// is empty (a fault that is never reached is not a failure) while the model polls both, so only
    /// plans whose joins all have non-empty inputs are compared with the model.
    fn clean(&self, srcs: &[Src]) -> (Vec<i64>, bool) {
        match self {
            P::Src(i) => (srcs[*i].parts.iter().flatten().flatten().cloned().collect(), true),
            P::Filter(c, p) => {
                let (r, ok) = p.clean(srcs);
                (r.into_iter().filter(|v| v > c).collect(), ok)
            }
            P::Udf(p) => {
                let (r, ok) = p.clean(srcs);
                (r.into_iter().map(|v| v + 1).collect(), ok)
            }
            P::Sort(p) => p.clean(srcs),
            P::Count(p) => {
                let (r, ok) = p.clean(srcs);
                (vec![r.len() as i64], ok)
            }
            P::Join(b, p) => {
                let (rb, ok1) = b.clean(srcs);
                let (rp, ok2) = p.clean(srcs);
                let out: Vec<i64> = rp.iter().flat_map(|v| rb.iter().filter(move |w| *w == v).map(move |_| *v)).collect();
                (out, ok1 && ok2 && !rb.is_empty() && !rp.is_empty())
            }
            P::Union(l, r) => {
                let (mut a, ok1) = l.clean(srcs);
                let (b, ok2) = r.clean(srcs);
                a.extend(b);
                (a, ok1 && ok2)
            }
        }
    }
}

fn model_cases(run: &mut Run, rng: &mut Rng) {
    let n = run.budget(600, 6000);
    let mut done = 0;
    let mut attempts = 0;
    while done < n && attempts < n * 6 {
        attempts += 1;
        let mut nsrc = 0;
        let mut udf_used = false;
        let plan = gen_plan(rng, 3, &mut nsrc, &mut udf_used);
        let mut srcs: Vec<Src> = (0..nsrc).map(|_| gen_src(rng, 2)).collect();
        // with several target partitions a partitioned hash join short-circuits every partition whose build
        // side is empty and never polls that partition's probe side — so a source may legitimately be left
        // unread although both join inputs are non-empty as a whole; plans with joins run single-partition
        let parts = if plan.has_join() { 1 } else { *rng.pick(&[1usize, 3]) };
        let bs = *rng.pick(&[2usize, 8192]);
        let mk = |srcs: &[Src], bad: i64| Setup {
            tables: srcs.iter().enumerate().map(|(i, s)| (format!("s{i}"), s.clone())).collect(),
            udf_bad: bad,
            partitions: parts,
            batch_size: bs,
            mem_limit: None,
            disk_off: false,
            prefer_hash_join: true,
            // the model polls every input of every operator; with dynamic filters (or a filter pushed below a
            // join, see `filter_over_join`) a join input can become empty and the other side is then never
            // polled — a fault that is never reached is not an execution failure
            dyn_filters: false,
        };
        let sql = plan.sql();
        if !plan.clean(&srcs).1 {
            run.count("model_skipped_join_with_empty_side");
            continue;
        }
        if plan.filter_over_join(false) {
            run.count("model_skipped_filter_above_join");
            continue;
        }
        // choose the fault: none, a source fault at a random (table, partition, k), a udf fault, or both
        let kind = rng.below(5);
        let mut bad = -777;
        if kind == 1 || kind == 3 {
            let t = rng.below(nsrc as u64) as usize;
            let p = rng.below(srcs[t].parts.len() as u64) as usize;
            let k = rng.below(srcs[t].parts[p].len() as u64 + 1) as usize;
            srcs[t].fault = Some((p, k));
        }
        if (kind == 2 || kind == 3) && udf_used {
            bad = rng.range(0, 6);
        }
        let seen = run_sql(&mk(&srcs, bad), &sql);
        let ans = match seen {
            Seen::Ok(rows) => {
                let mut v: Vec<i64> = rows.iter().map(|r| r.parse().unwrap()).collect();
                v.sort();
                format!("ok ({})", v.iter().map(|x| x.to_string()).collect::<Vec<_>>().join(" "))
            }
            Seen::Err(..) => "err".to_string(),
            Seen::Panic(p) => format!("panic:{p}"),
            Seen::Hang => "hang".to_string(),
        };
        let src_fault = srcs.iter().any(|s| s.fault.is_some());
        let udf_fault = bad != -777;
        run.count(match (src_fault, udf_fault) {
            (false, false) => "model_no_fault",
            (true, false) => "model_source_fault",
            (false, true) => "model_udf_fault",
            (true, true) => "model_both_faults",
        });
        run.count(if ans == "err" { "model_outcome_err" } else { "model_outcome_ok" });
        run.case("plan", &plan.sexp(&srcs, bad), &ans, src_fault || udf_fault);
        done += 1;
    }
}

impl fmt::Display for Src {
    fn fmt(&self, f: &mut fmt::Formatter<'_>) -> fmt::Result {
        write!(f, "{:?}", self.parts)
    }
}

pub fn run(run: &mut Run, args: &Args) {
    hutil::quiet_panics();
    let mut rng = Rng::new(args.seed);
    model_cases(run, &mut rng);
    oracle_shapes(run, &mut rng);
    oracle_resources(run, &mut rng);
}
