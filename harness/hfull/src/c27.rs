//! C27 — partition-value pruning of listing tables never drops matching files.
//!
//! Real code driven: `evaluate_partition_prefix`, `parse_partitions_for_path`,
//! `pruned_partition_list` (catalog-listing/src/helpers.rs) over an `InMemory` object store holding a
//! random hive layout, and full `ListingTable` scans through SQL.
//!
//! (K) `prefix`  equality  — the listing prefix for (partition cols, filters);
//!     `prune`   judge     — the files returned by the real `pruned_partition_list` are sent to the Lean
//!                           model, which answers `ok` iff  required ⊆ returned ⊆ files  (refinement).
//! (O) implementation-level oracles (no model): returned ⊇ {files whose directory values, decoded and
//!     typed here independently, satisfy the filter}; SQL `SELECT … WHERE filter` over the listing table
//!     = scanning everything and filtering; directory / extension / glob coverage of a table location.
use std::collections::BTreeSet;
use std::sync::Arc;

use arrow::array::{ArrayRef, Int64Array, RecordBatch, StringArray};
use arrow::datatypes::{DataType, Field, Schema};
use bytes::Bytes;
use datafusion::datasource::listing::ListingTableUrl;
use datafusion::prelude::*;
use datafusion_catalog_listing::helpers::{evaluate_partition_prefix, parse_partitions_for_path, pruned_partition_list};
use datafusion_common::ScalarValue;
use datafusion_expr::Expr;
use futures::TryStreamExt;
use hutil::{Args, Rng, Run, hex};
use object_store::memory::InMemory;
use object_store::path::Path;
use object_store::{ObjectStore, ObjectStoreExt, PutPayload};

#[derive(Clone, Debug, PartialEq, Eq, PartialOrd, Ord)]
enum Val {
    S(String),
    I(i64),
}
#[derive(Clone, Copy, Debug, PartialEq)]
enum Ty {
    Utf8,
    Int,
}
#[derive(Clone, Debug)]
enum F {
    Cmp(&'static str, usize, Option<Val>),  // col op lit
    CmpR(&'static str, Option<Val>, usize), // lit op col
    And(Box<F>, Box<F>),
    Or(Box<F>, Box<F>),
    Not(Box<F>),
    IsNull(usize),
    IsNotNull(usize),
}

const OPS: [&str; 6] = ["eq", "ne", "lt", "le", "gt", "ge"];
const STRS: [&str; 12] = ["x", "y", "x y", "a/b", "100%", "é", "a=b", "x*y", "", "A", "#h", "q?"];
const INTS: [i64; 6] = [0, 1, 2, 10, -1, 7];

fn lit_expr(v: &Option<Val>, ty: Ty) -> Expr {
    match (v, ty) {
        (Some(Val::S(s)), _) => lit(s.clone()),
        (Some(Val::I(i)), _) => lit(*i),
        (None, Ty::Utf8) => lit(ScalarValue::Utf8(None)),
        (None, Ty::Int) => lit(ScalarValue::Int64(None)),
    }
}
fn to_expr(f: &F, cols: &[(String, Ty)]) -> Expr {
    let bin = |op: &str, l: Expr, r: Expr| match op {
        "eq" => l.eq(r),
        "ne" => l.not_eq(r),
        "lt" => l.lt(r),
        "le" => l.lt_eq(r),
        "gt" => l.gt(r),
        _ => l.gt_eq(r),
    };
    match f {
        F::Cmp(op, c, v) => bin(op, col(cols[*c].0.as_str()), lit_expr(v, cols[*c].1)),
        F::CmpR(op, v, c) => bin(op, lit_expr(v, cols[*c].1), col(cols[*c].0.as_str())),
        F::And(l, r) => to_expr(l, cols).and(to_expr(r, cols)),
        F::Or(l, r) => to_expr(l, cols).or(to_expr(r, cols)),
        F::Not(x) => !to_expr(x, cols),
        F::IsNull(c) => col(cols[*c].0.as_str()).is_null(),
        F::IsNotNull(c) => col(cols[*c].0.as_str()).is_not_null(),
    }
}
fn lit_sexp(v: &Option<Val>) -> String {
    match v {
        None => "N".into(),
        Some(Val::S(s)) => format!("(s {})", hex(s.as_bytes())),
        Some(Val::I(i)) => format!("(i {i})"),
    }
}
fn to_sexp(f: &F, cols: &[(String, Ty)]) -> String {
    let c = |i: &usize| hex(cols[*i].0.as_bytes());
    match f {
        F::Cmp(op, i, v) => format!("(cmp {op} {} {})", c(i), lit_sexp(v)),
        F::CmpR(op, v, i) => format!("(cmpr {op} {} {})", lit_sexp(v), c(i)),
        F::And(l, r) => format!("(and {} {})", to_sexp(l, cols), to_sexp(r, cols)),
        F::Or(l, r) => format!("(or {} {})", to_sexp(l, cols), to_sexp(r, cols)),
        F::Not(x) => format!("(not {})", to_sexp(x, cols)),
        F::IsNull(i) => format!("(isnull {})", c(i)),
        F::IsNotNull(i) => format!("(isnotnull {})", c(i)),
    }
}
/// independent 3-valued evaluation (the property's predicate)
fn eval(f: &F, row: &[Val]) -> Option<bool> {
    fn cmp(op: &str, a: &Val, b: &Val) -> Option<bool> {
        let o = match (a, b) {
            (Val::I(x), Val::I(y)) => x.cmp(y),
            (Val::S(x), Val::S(y)) => x.as_bytes().cmp(y.as_bytes()),
            _ => return None,
        };
        Some(match op {
            "eq" => o.is_eq(),
            "ne" => o.is_ne(),
            "lt" => o.is_lt(),
            "le" => o.is_le(),
            "gt" => o.is_gt(),
            _ => o.is_ge(),
        })
    }
    match f {
        F::Cmp(op, c, v) => v.as_ref().and_then(|v| cmp(op, &row[*c], v)),
        F::CmpR(op, v, c) => v.as_ref().and_then(|v| cmp(op, v, &row[*c])),
        F::And(l, r) => match (eval(l, row), eval(r, row)) {
            (Some(false), _) | (_, Some(false)) => Some(false),
            (Some(true), Some(true)) => Some(true),
            _ => None,
        },
        F::Or(l, r) => match (eval(l, row), eval(r, row)) {
            (Some(true), _) | (_, Some(true)) => Some(true),
            (Some(false), Some(false)) => Some(false),
            _ => None,
        },
        F::Not(x) => eval(x, row).map(|b| !b),
        F::IsNull(_) => Some(false),
        F::IsNotNull(_) => Some(true),
    }
}

fn rand_lit(rng: &mut Rng, ty: Ty, pool: &[Val]) -> Option<Val> {
    if rng.chance(1, 12) {
        return None;
    }
    // mostly literals that occur in the layout, so that filters select some files
    let same: Vec<&Val> = pool.iter().filter(|v| matches!((v, ty), (Val::S(_), Ty::Utf8) | (Val::I(_), Ty::Int))).collect();
    if !same.is_empty() && rng.chance(2, 3) {
        return Some((*rng.pick(&same)).clone());
    }
    Some(match ty {
        Ty::Utf8 => Val::S(rng.pick(&STRS).to_string()),
        Ty::Int => Val::I(*rng.pick(&INTS)),
    })
}
fn rand_filter(rng: &mut Rng, cols: &[(String, Ty)], depth: u32, pool: &[Val]) -> F {
    let c = rng.below(cols.len() as u64) as usize;
    let leaf = |rng: &mut Rng| {
        let op = if rng.chance(3, 5) { "eq" } else { *rng.pick(&OPS) };
        match rng.below(10) {
            0 => F::IsNull(c),
            1 => F::IsNotNull(c),
            2 | 3 => F::CmpR(op, rand_lit(rng, cols[c].1, pool), c),
            _ => F::Cmp(op, c, rand_lit(rng, cols[c].1, pool)),
        }
    };
    if depth == 0 || rng.chance(1, 2) {
        return leaf(rng);
    }
    match rng.below(6) {
        0 | 1 | 2 => F::And(Box::new(rand_filter(rng, cols, depth - 1, pool)), Box::new(rand_filter(rng, cols, depth - 1, pool))),
        3 | 4 => F::Or(Box::new(rand_filter(rng, cols, depth - 1, pool)), Box::new(rand_filter(rng, cols, depth - 1, pool))),
        _ => F::Not(Box::new(rand_filter(rng, cols, depth - 1, pool))),
    }
}

/// canonical directory text of a value = how the writer / `ScalarValue::to_string` print it
fn canon_text(v: &Val) -> String {
    match v {
        Val::S(s) => s.clone(),
        Val::I(i) => i.to_string(),
    }
}
/// a different spelling of the same typed value (third-party layouts): zero padding / explicit sign /
/// percent-encoding of a character that needs none
fn alt_text(rng: &mut Rng, v: &Val) -> Option<String> {
    match v {
        Val::I(i) if *i >= 0 => Some(if rng.chance(1, 2) { format!("0{i}") } else { format!("+{i}") }),
        Val::I(i) => Some(format!("-0{}", -i)),
        Val::S(s) if !s.is_empty() && s.bytes().all(|b| b.is_ascii_alphanumeric() || b == b' ') && s.as_bytes()[0] != b' ' => {
            Some(format!("%{:02X}{}", s.as_bytes()[0], &s[1..]))
        }
        _ => None,
    }
}

struct FileSpec {
    path: Path,      // full path in the store (under "t/")
    segs: Vec<String>, // raw segments below the table prefix
    size: usize,
    row: Option<Vec<Val>>, // typed partition values if the file is inside a valid partition path
    canonical: bool,
}

fn file_sexp(segs: &[String], size: usize) -> String {
    format!("({} {})", size, segs.iter().map(|s| hex(s.as_bytes())).collect::<Vec<_>>().join(" "))
}

/// `C27_DEBUG_SQL="<predicate>"`: one Utf8 partition column `a` with directories a=x, a=y, "a=x y", a=a=b;
/// prints the result and the plans of `SELECT id FROM t WHERE <predicate>` (used to write up findings).
fn debug_sql(pred: &str) {
    let rt = tokio::runtime::Builder::new_current_thread().enable_all().build().unwrap();
    let dir = tempfile::tempdir().unwrap();
    let base = dir.path().join("t");
    let mut id = 0i64;
    for v in ["x", "y", "x y", "a=b"] {
        let p = base.join(format!("a={v}"));
        std::fs::create_dir_all(&p).unwrap();
        id += 1;
        let batch = RecordBatch::try_new(
            Arc::new(Schema::new(vec![Field::new("id", DataType::Int64, false)])),
            vec![Arc::new(Int64Array::from(vec![id])) as ArrayRef],
        )
        .unwrap();
        let f = std::fs::File::create(p.join("d.parquet")).unwrap();
        let mut w = parquet::arrow::ArrowWriter::try_new(f, batch.schema(), None).unwrap();
        w.write(&batch).unwrap();
        w.close().unwrap();
    }
    let ctx = SessionContext::new();
    rt.block_on(async {
        ctx.sql(&format!("CREATE EXTERNAL TABLE t (id BIGINT NOT NULL, a VARCHAR) STORED AS PARQUET PARTITIONED BY (a) LOCATION '{}/'", base.display()))
            .await
            .unwrap()
            .collect()
            .await
            .unwrap();
        for q in [format!("SELECT id, a FROM t WHERE {pred}"), format!("EXPLAIN SELECT id, a FROM t WHERE {pred}")] {
            let bs = ctx.sql(&q).await.unwrap().collect().await.unwrap();
            println!("{q}\n{}", arrow::util::pretty::pretty_format_batches(&bs).unwrap());
        }
    });
}

pub fn run(run: &mut Run, args: &Args) {
    if let Ok(pred) = std::env::var("C27_DEBUG_SQL") {
        debug_sql(&pred);
        return;
    }
    let mut rng = Rng::new(args.seed);
    let rt = tokio::runtime::Builder::new_current_thread().enable_all().build().unwrap();
    let n_layouts = run.budget(600, 6000);
    let filters_per_layout = 8;

    for layout_i in 0..n_layouts {
        // ---- partition columns
        let ncols = 1 + rng.below(3) as usize;
        let cols: Vec<(String, Ty)> = (0..ncols)
            .map(|i| (["a", "b", "c"][i].to_string(), if rng.chance(1, 2) { Ty::Int } else { Ty::Utf8 }))
            .collect();
        let df_cols: Vec<(String, DataType)> =
            cols.iter().map(|(n, t)| (n.clone(), if *t == Ty::Int { DataType::Int64 } else { DataType::Utf8 })).collect();
        let noncanon_layout = layout_i % 5 == 4; // every 5th layout contains third-party spellings

        // ---- files
        let store = Arc::new(InMemory::new());
        let mut files: Vec<FileSpec> = vec![];
        let nfiles = 1 + rng.below(9) as usize;
        for fi in 0..nfiles {
            let mut row = vec![];
            let mut segs = vec![];
            let mut canonical = true;
            let mut path = Path::from("t");
            for (name, ty) in &cols {
                let v = match ty {
                    Ty::Utf8 => Val::S(rng.pick(&STRS).to_string()),
                    Ty::Int => Val::I(*rng.pick(&INTS)),
                };
                let mut text = canon_text(&v);
                let mut raw_override = None;
                if noncanon_layout && rng.chance(1, 3) {
                    if let Some(a) = alt_text(&mut rng, &v) {
                        canonical = false;
                        if matches!(v, Val::S(_)) {
                            raw_override = Some(format!("{name}={a}")); // already percent-encoded text
                        } else {
                            text = a;
                        }
                    }
                }
                path = match &raw_override {
                    Some(raw) => Path::parse(format!("{}/{}", path, raw)).unwrap(),
                    None => path.join(format!("{name}={text}")), // exactly what the writer does
                };
                segs.push(path.parts().last().unwrap().as_ref().to_string());
                row.push(v);
            }
            // some stale files outside a valid partition path, some empty files, other extensions
            let kind = rng.below(12);
            let (fname, size, valid) = match kind {
                0 => (format!("f{fi}.parquet"), 0usize, true),
                1 => (format!("f{fi}.csv"), 5, true),
                _ => (format!("f{fi}.parquet"), 1 + rng.below(5) as usize, true),
            };
            let (path, segs, row) = if kind == 2 && ncols > 1 {
                // a file one directory too high: not inside a full partition path
                let p = Path::from("t").join(segs[0].clone()).join(fname.clone());
                (p, vec![segs[0].clone(), fname.clone()], None)
            } else {
                let p = path.join(fname.clone());
                let mut s = segs.clone();
                s.push(fname.clone());
                (p, s, if valid { Some(row) } else { None })
            };
            if files.iter().any(|f| f.path == path) {
                continue;
            }
            let st = Arc::clone(&store);
            let p2 = path.clone();
            rt.block_on(async move { st.put(&p2, PutPayload::from(Bytes::from(vec![b'x'; size]))).await.unwrap() });
            files.push(FileSpec { path, segs, size, row, canonical });
        }
        let table_url = ListingTableUrl::parse("memory:///t/").unwrap();
        let ctx = SessionContext::new();
        let state = ctx.state();

        // ---- parse_partitions_for_path vs the values the path was built from (oracle)
        for f in &files {
            let names: Vec<&str> = cols.iter().map(|c| c.0.as_str()).collect();
            let parsed = parse_partitions_for_path(&table_url, &f.path, names);
            if let Some(row) = &f.row {
                let want: Vec<String> = row.iter().map(canon_text).collect();
                let got: Option<Vec<String>> = parsed.map(|v| v.into_iter().map(|c| c.into_owned()).collect());
                // typed comparison: the decoded text must denote the value the directory was built from
                let ok = match &got {
                    Some(g) => g.len() == want.len() && g.iter().zip(row.iter()).all(|(t, v)| match v {
                        Val::S(s) => t == s,
                        Val::I(i) => t.parse::<i64>().ok() == Some(*i),
                    }),
                    None => false,
                };
                run.oracle(ok, &format!("c27 parse path={}", f.path), &format!("parse_partitions_for_path gave {got:?}, the path was built from {want:?}"));
            }
        }

        // ---- filters
        let pool: Vec<Val> = files.iter().filter_map(|f| f.row.clone()).flatten().collect();
        for _ in 0..filters_per_layout {
            let nf = 1 + rng.below(3) as usize;
            let fs: Vec<F> = (0..nf).map(|_| rand_filter(&mut rng, &cols, 2, &pool)).collect();
            let exprs: Vec<Expr> = fs.iter().map(|f| to_expr(f, &cols)).collect();
            let cols_sexp = format!(
                "({})",
                cols.iter().map(|(n, t)| format!("({} {})", hex(n.as_bytes()), if *t == Ty::Int { "int" } else { "utf8" })).collect::<Vec<_>>().join(" ")
            );
            let fs_sexp = format!("({})", fs.iter().map(|f| to_sexp(f, &cols)).collect::<Vec<_>>().join(" "));

            // (K) prefix: equality (sometimes with an extra equality on a non-partition column `z`, which
            // makes the map non-empty without constraining any partition column)
            if rng.chance(1, 4) {
                let mut cols_ext = cols.clone();
                cols_ext.push(("z".to_string(), Ty::Int));
                let mut fs2 = fs.clone();
                let zf = F::Cmp("eq", ncols, Some(Val::I(3)));
                if rng.chance(1, 2) { fs2.insert(0, zf) } else { fs2.push(zf) }
                let exprs2: Vec<Expr> = fs2.iter().map(|f| to_expr(f, &cols_ext)).collect();
                let pre2 = evaluate_partition_prefix(&df_cols, &exprs2);
                let pre2_s = match &pre2 {
                    None => "none".to_string(),
                    Some(p) => p.parts().map(|x| hex(x.as_ref().as_bytes())).collect::<Vec<_>>().join("/"),
                };
                let fs2_sexp = format!("({})", fs2.iter().map(|f| to_sexp(f, &cols_ext)).collect::<Vec<_>>().join(" "));
                run.case("prefix", &format!("({cols_sexp} {fs2_sexp})"), &pre2_s, pre2.is_some());
                run.count("prefix: with a non-partition column filter");
            }
            let pre = evaluate_partition_prefix(&df_cols, &exprs);
            let pre_s = match &pre {
                None => "none".to_string(),
                Some(p) => p.parts().map(|x| hex(x.as_ref().as_bytes())).collect::<Vec<_>>().join("/"),
            };
            run.case("prefix", &format!("({cols_sexp} {fs_sexp})"), &pre_s, pre.is_some());
            run.count(if pre.is_some() { "prefix: some" } else { "prefix: none" });

            // real pruned_partition_list
            let res: Result<Vec<Path>, String> = rt.block_on(async {
                let st: &dyn ObjectStore = store.as_ref();
                match pruned_partition_list(&state, st, &table_url, &exprs, ".parquet", &df_cols).await {
                    Err(e) => Err(e.to_string()),
                    Ok(s) => s.map_ok(|pf| pf.object_meta.location.clone()).try_collect::<Vec<_>>().await.map_err(|e| e.to_string()),
                }
            });
            let returned: BTreeSet<String> = match &res {
                Ok(v) => v.iter().map(|p| p.to_string()).collect(),
                Err(e) => {
                    run.oracle(false, &format!("c27 error cols={cols_sexp} filters={fs_sexp}"), &format!("pruned_partition_list failed: {e}"));
                    continue;
                }
            };
            // (O) required ⊆ returned
            let mut missing_canon = vec![];
            let mut missing_noncanon = vec![];
            for f in &files {
                let Some(row) = &f.row else { continue };
                if f.size == 0 || !f.path.as_ref().ends_with(".parquet") {
                    continue;
                }
                let sat = fs.iter().all(|x| eval(x, row) == Some(true));
                if sat && !returned.contains(&f.path.to_string()) {
                    if f.canonical { missing_canon.push(f.path.to_string()) } else { missing_noncanon.push(f.path.to_string()) }
                }
            }
            let bogus: Vec<String> = files
                .iter()
                .filter(|f| returned.contains(&f.path.to_string()) && (f.size == 0 || !f.path.as_ref().ends_with(".parquet") || f.row.is_none()))
                .map(|f| f.path.to_string())
                .collect();
            run.oracle(bogus.is_empty(), &format!("c27 returned-unexpected files={bogus:?}"), "empty files, files with another extension or files outside a full partition path were returned");
            run.oracle(
                missing_canon.is_empty(),
                &format!("c27 dropped-canonical files={:?} filters={fs_sexp}", missing_canon),
                &format!("pruned_partition_list(cols={cols_sexp}) dropped files whose partition values satisfy the filters: {missing_canon:?}; returned {returned:?}"),
            );
            if noncanon_layout {
                run.oracle(
                    missing_noncanon.is_empty(),
                    &format!("c27 dropped-noncanonical-spelling files={:?} prefix={pre_s} filters={fs_sexp}", missing_noncanon),
                    &format!("layout with third-party spellings (zero-padded / signed / over-encoded directory values): pruned_partition_list(cols={cols_sexp}) dropped {missing_noncanon:?} although their typed partition values satisfy the filters; listing prefix = {pre_s}"),
                );
                run.count("layouts with non-canonical spellings (oracle only)");
            } else {
                // (K) judge by the model (canonical layouts only — the model's `required` follows the real
                // parse, so a non-canonical layout would re-report the finding as a disagreement)
                // the model has no file-extension filter: ship the `.parquet` files only (the extension filter is
                // judged by the oracle above, where other extensions must never be required nor returned)
                let files_sexp = format!(
                    "({})",
                    files.iter().filter(|f| f.path.as_ref().ends_with(".parquet")).map(|f| file_sexp(&f.segs, f.size)).collect::<Vec<_>>().join(" ")
                );
                let ret_sexp = format!(
                    "({})",
                    files.iter().filter(|f| returned.contains(&f.path.to_string())).map(|f| file_sexp(&f.segs, f.size)).collect::<Vec<_>>().join(" ")
                );
                let nontrivial = !returned.is_empty() && returned.len() < files.len();
                run.case("prune", &format!("({cols_sexp} {fs_sexp} {files_sexp} {ret_sexp})"), "ok", nontrivial);
            }
            run.count(&format!("returned {} of files", if returned.is_empty() { "none" } else if returned.len() == files.len() { "all" } else { "some" }));
        }
    }

    sql_scans(run, &rt, &mut rng);
}

/// full ListingTable scans: `SELECT … WHERE filter` = scan everything, filter afterwards
fn sql_scans(run: &mut Run, rt: &tokio::runtime::Runtime, rng: &mut Rng) {
    let n = run.budget(80, 600);
    for case_i in 0..n {
        let dir = tempfile::tempdir().unwrap();
        let base = dir.path().join("t");
        let ncols = 1 + rng.below(2) as usize;
        let cols: Vec<(String, Ty)> = (0..ncols).map(|i| (["a", "b"][i].to_string(), if rng.chance(1, 2) { Ty::Int } else { Ty::Utf8 })).collect();
        let noncanon = case_i % 4 == 3;
        // rows: (id, partition values)
        let mut rows: Vec<(i64, Vec<Val>)> = vec![];
        let mut alt_ids: BTreeSet<i64> = BTreeSet::new(); // rows stored under a non-canonical directory spelling
        let nparts = 1 + rng.below(5);
        let mut id = 0i64;
        let ctx = SessionContext::new();
        let mut any_alt = false;
        for _ in 0..nparts {
            let vals: Vec<Val> = cols.iter().map(|(_, t)| match t {
                Ty::Utf8 => Val::S(rng.pick(&["x", "y", "x y", "A", "a=b"]).to_string()),
                Ty::Int => Val::I(*rng.pick(&INTS)),
            }).collect();
            let mut p = base.clone();
            let mut this_alt = false;
            for ((name, _), v) in cols.iter().zip(&vals) {
                let mut text = canon_text(v);
                if noncanon && matches!(v, Val::I(_)) && rng.chance(1, 2) {
                    text = alt_text(rng, v).unwrap();
                    any_alt = true;
                    this_alt = true;
                }
                p = p.join(format!("{name}={text}"));
            }
            std::fs::create_dir_all(&p).unwrap();
            let k = 1 + rng.below(3);
            let ids: Vec<i64> = (0..k).map(|_| { id += 1; id }).collect();
            let batch = RecordBatch::try_new(
                Arc::new(Schema::new(vec![Field::new("id", DataType::Int64, false), Field::new("s", DataType::Utf8, true)])),
                vec![Arc::new(Int64Array::from(ids.clone())) as ArrayRef, Arc::new(StringArray::from(ids.iter().map(|i| format!("r{i}")).collect::<Vec<_>>())) as ArrayRef],
            ).unwrap();
            let file = p.join(format!("d{}.parquet", rows.len()));
            if file.exists() {
                continue;
            }
            let f = std::fs::File::create(&file).unwrap();
            let mut w = parquet::arrow::ArrowWriter::try_new(f, batch.schema(), None).unwrap();
            w.write(&batch).unwrap();
            w.close().unwrap();
            for i in ids {
                if this_alt {
                    alt_ids.insert(i);
                }
                rows.push((i, vals.clone()));
            }
        }
        let part_decl: Vec<String> = cols.iter().map(|(n, t)| format!("{n} {}", if *t == Ty::Int { "BIGINT" } else { "VARCHAR" })).collect();
        let ddl = format!(
            "CREATE EXTERNAL TABLE t (id BIGINT NOT NULL, s VARCHAR, {}) STORED AS PARQUET PARTITIONED BY ({}) LOCATION '{}/'",
            part_decl.join(", "),
            cols.iter().map(|c| c.0.clone()).collect::<Vec<_>>().join(", "),
            base.display()
        );
        let r = rt.block_on(async { ctx.sql(&ddl).await?.collect().await });
        if let Err(e) = r {
            run.oracle(false, &format!("c27 sql ddl-error {}", ddl.replace(base.to_str().unwrap(), "<dir>")), &e.to_string());
            continue;
        }
        for _ in 0..6 {
            let pool: Vec<Val> = rows.iter().flat_map(|r| r.1.clone()).collect();
            let f = rand_filter(rng, &cols, 1, &pool);
            let sql_pred = to_sql(&f, &cols);
            let q = format!("SELECT id FROM t WHERE {sql_pred}");
            let got: Result<BTreeSet<i64>, String> = rt.block_on(async {
                let bs = ctx.sql(&q).await.map_err(|e| e.to_string())?.collect().await.map_err(|e| e.to_string())?;
                let mut out = BTreeSet::new();
                for b in bs {
                    let a = b.column(0).as_any().downcast_ref::<Int64Array>().unwrap().clone();
                    for i in 0..a.len() {
                        out.insert(a.value(i));
                    }
                }
                Ok(out)
            });
            let want: BTreeSet<i64> = rows.iter().filter(|(_, v)| eval(&f, v) == Some(true)).map(|(i, _)| *i).collect();
            let layout: Vec<String> = rows.iter().map(|(i, v)| format!("{i}:{v:?}")).collect();
            match got {
                Err(e) => run.oracle(false, &format!("c27 sql error q={q}"), &e),
                Ok(got) => {
                    let missing: Vec<i64> = want.difference(&got).cloned().collect();
                    let extra: Vec<i64> = got.difference(&want).cloned().collect();
                    // the known defect: ONLY rows under non-canonical directory spellings are missing, nothing is extra
                    let mut kind = if noncanon && any_alt && extra.is_empty() && !missing.is_empty() && missing.iter().all(|i| alt_ids.contains(i)) {
                        "noncanonical-spelling-dropped"
                    } else {
                        "rows"
                    };
                    // a different, optimizer-level defect (expression simplifier, C04 territory) surfaces here: a
                    // conjunction that compares one Utf8View column with string literals in BOTH operand orders
                    // (`a = 'x' AND 'x' = a` → FALSE, `a >= 'v' AND 'v' < a` → `a >= 'v'`).  Classified only when the
                    // filter has that shape AND the same filter with every `lit op col` mirrored to `col op' lit`
                    // gives the right answer on the same table.
                    if kind == "rows" && has_commuted_string_cmp(&f) {
                        let q2 = format!("SELECT id FROM t WHERE {}", to_sql(&mirror(&f), &cols));
                        let got2: Option<BTreeSet<i64>> = rt.block_on(async {
                            let bs = ctx.sql(&q2).await.ok()?.collect().await.ok()?;
                            let mut out = BTreeSet::new();
                            for b in bs {
                                let a = b.column(0).as_any().downcast_ref::<Int64Array>()?.clone();
                                for i in 0..a.len() {
                                    out.insert(a.value(i));
                                }
                            }
                            Some(out)
                        });
                        if got2.as_ref() == Some(&want) {
                            kind = "commuted-string-comparison-mis-simplified";
                        }
                    }
                    run.oracle(
                        missing.is_empty() && extra.is_empty(),
                        &format!("c27 sql {kind} missing={missing:?} extra={extra:?} q={q}"),
                        &format!("listing table over {layout:?} (cols {cols:?}): `{q}` returned ids {got:?}, scanning all files and filtering gives {want:?}"),
                    );
                    run.count(if got.is_empty() { "sql: empty result" } else { "sql: non-empty result" });
                }
            }
        }
    }
}

/// some AND compares the same Utf8 column with string literals in both operand orders
fn has_commuted_string_cmp(f: &F) -> bool {
    fn leaves<'a>(f: &'a F, l: &mut Vec<&'a F>) {
        match f {
            F::And(a, b) => {
                leaves(a, l);
                leaves(b, l);
            }
            x => l.push(x),
        }
    }
    match f {
        F::And(..) => {
            let mut l = vec![];
            leaves(f, &mut l);
            let direct = l.iter().any(|x| match x {
                F::Cmp(_, c, Some(Val::S(_))) => l.iter().any(|y| matches!(y, F::CmpR(_, Some(Val::S(_)), c2) if c2 == c)),
                _ => false,
            });
            direct || l.iter().any(|x| has_commuted_string_cmp(x))
        }
        F::Or(a, b) => has_commuted_string_cmp(a) || has_commuted_string_cmp(b),
        F::Not(x) => has_commuted_string_cmp(x),
        _ => false,
    }
}
/// `lit op col` → `col op' lit`
fn mirror(f: &F) -> F {
    match f {
        F::CmpR(op, v, c) => F::Cmp(
            match *op {
                "lt" => "gt",
                "le" => "ge",
                "gt" => "lt",
                "ge" => "le",
                o => o,
            },
            *c,
            v.clone(),
        ),
        F::And(a, b) => F::And(Box::new(mirror(a)), Box::new(mirror(b))),
        F::Or(a, b) => F::Or(Box::new(mirror(a)), Box::new(mirror(b))),
        F::Not(x) => F::Not(Box::new(mirror(x))),
        x => x.clone(),
    }
}

fn to_sql(f: &F, cols: &[(String, Ty)]) -> String {
    let l = |v: &Option<Val>| match v {
        None => "NULL".to_string(),
        Some(Val::I(i)) => i.to_string(),
        Some(Val::S(s)) => format!("'{}'", s.replace('\'', "''")),
    };
    let o = |op: &str| match op {
        "eq" => "=",
        "ne" => "<>",
        "lt" => "<",
        "le" => "<=",
        "gt" => ">",
        _ => ">=",
    };
    match f {
        F::Cmp(op, c, v) => format!("{} {} {}", cols[*c].0, o(op), l(v)),
        F::CmpR(op, v, c) => format!("{} {} {}", l(v), o(op), cols[*c].0),
        F::And(a, b) => format!("(({}) AND ({}))", to_sql(a, cols), to_sql(b, cols)),
        F::Or(a, b) => format!("(({}) OR ({}))", to_sql(a, cols), to_sql(b, cols)),
        F::Not(x) => format!("(NOT ({}))", to_sql(x, cols)),
        F::IsNull(c) => format!("{} IS NULL", cols[*c].0),
        F::IsNotNull(c) => format!("{} IS NOT NULL", cols[*c].0),
    }
}
