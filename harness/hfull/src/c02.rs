//! C02 — query results do not depend on execution configuration or parallelism.
//!
//! Implementation-level oracle: every generated query of the C01 fragment (no error-prone
//! constructs, no LIMIT without a total order) is executed under a sampled cross product of the
//! semantic-neutral options — target_partitions {1,2,3,7}, batch_size {1,2,3,8192}, repartition_*
//! switches, round-robin repartition, coalesce_batches, prefer_hash_join,
//! hash_join_single_partition_threshold{,_rows}, the dynamic-filter / TopK switches,
//! partial-aggregation skipping thresholds, sort buffer sizes, the input re-split into 1–4 MemTable
//! partitions of 1–3 batches, tokio worker threads {1,4} — each time twice and concurrently with two
//! other queries in the same SessionContext.  The bag of rows (the sequence under a totalising ORDER
//! BY, bag + sortedness under a partial one) must be identical for all configurations and runs.
//! Correspondence: the common result (and any deviating one) is judged against the Lean reference
//! (`evalPlan`, as in C01); op `twostage` ties the two-stage aggregation model to the engine on
//! explicit partition splits (`SELECT SUM/MIN/MAX/COUNT(v)` over a table split exactly that way).
use std::collections::BTreeMap;
use std::sync::Arc;
use std::time::Duration;

use datafusion::datasource::MemTable;
use datafusion::prelude::{SessionConfig, SessionContext};
use hutil::{Args, Rng, Run};

use crate::sqlgen::*;

type Rows = Vec<Vec<Val>>;

#[derive(Clone, Debug)]
struct Config {
    opts: Vec<(&'static str, String)>,
    workers: usize,
    split_seed: u64,
}

fn baseline() -> Config {
    Config { opts: vec![("datafusion.execution.target_partitions", "1".into())], workers: 1, split_seed: 0 }
}

fn sample_config(rng: &mut Rng) -> Config {
    let b = |rng: &mut Rng| if rng.chance(1, 2) { "true".to_string() } else { "false".to_string() };
    let mut opts: Vec<(&'static str, String)> = vec![
        ("datafusion.execution.target_partitions", rng.pick(&[1, 2, 3, 7]).to_string()),
        ("datafusion.execution.batch_size", rng.pick(&[1, 2, 3, 8192]).to_string()),
    ];
    for k in [
        "datafusion.optimizer.repartition_joins",
        "datafusion.optimizer.repartition_aggregations",
        "datafusion.optimizer.repartition_sorts",
        "datafusion.optimizer.repartition_windows",
        "datafusion.optimizer.repartition_file_scans",
        "datafusion.optimizer.enable_round_robin_repartition",
        "datafusion.execution.coalesce_batches",
        "datafusion.optimizer.prefer_hash_join",
        "datafusion.optimizer.enable_dynamic_filter_pushdown",
        "datafusion.optimizer.enable_join_dynamic_filter_pushdown",
        "datafusion.optimizer.enable_aggregate_dynamic_filter_pushdown",
        "datafusion.optimizer.enable_topk_dynamic_filter_pushdown",
        "datafusion.optimizer.enable_topk_aggregation",
        "datafusion.optimizer.enable_topk_repartition",
        "datafusion.optimizer.enable_window_limits",
        "datafusion.optimizer.enable_sort_pushdown",
        "datafusion.optimizer.enable_distinct_aggregation_soft_limit",
        "datafusion.optimizer.prefer_existing_sort",
        "datafusion.optimizer.prefer_existing_union",
    ] {
        if rng.chance(1, 2) {
            opts.push((k, b(rng)));
        }
    }
    opts.push(("datafusion.optimizer.hash_join_single_partition_threshold", rng.pick(&[0usize, 1, 4 * 1024 * 1024]).to_string()));
    opts.push(("datafusion.optimizer.hash_join_single_partition_threshold_rows", rng.pick(&[0usize, 1, 131072]).to_string()));
    opts.push(("datafusion.execution.skip_partial_aggregation_probe_rows_threshold", rng.pick(&[0usize, 1, 2, 100_000]).to_string()));
    opts.push(("datafusion.execution.skip_partial_aggregation_probe_ratio_threshold", rng.pick(&["0.0", "0.1", "0.8", "1.0"]).to_string()));
    opts.push(("datafusion.execution.sort_in_place_threshold_bytes", rng.pick(&[0usize, 64, 1024 * 1024]).to_string()));
    opts.push(("datafusion.execution.sort_spill_reservation_bytes", rng.pick(&[0usize, 1024, 10 * 1024 * 1024]).to_string()));
    Config { opts, workers: *rng.pick(&[1usize, 4]), split_seed: rng.next() }
}

/// split the rows of `t` into 1–4 partitions of 1–3 batches (contiguous or round-robin)
fn split(rng: &mut Rng, t: &TableDef, one_partition: bool) -> Vec<Vec<arrow::array::RecordBatch>> {
    let np = if one_partition { 1 } else { 1 + rng.below(4) as usize };
    let mut parts: Vec<Vec<Vec<Val>>> = vec![vec![]; np];
    let rr = rng.chance(1, 2);
    let n = t.rows.len();
    for (i, r) in t.rows.iter().enumerate() {
        let p = if rr { i % np } else { (i * np) / n.max(1) };
        parts[p.min(np - 1)].push(r.clone());
    }
    parts
        .into_iter()
        .map(|rows| {
            let nb = 1 + rng.below(3) as usize;
            let per = rows.len().div_ceil(nb).max(1);
            let mut out: Vec<_> = rows.chunks(per).map(|c| batch_of(&t.cols, c)).collect();
            if out.is_empty() || rng.chance(1, 4) {
                out.push(batch_of(&t.cols, &[]));
            }
            out
        })
        .collect()
}

fn make_ctx(cfg: &Config, db: &[TableDef], run: &mut Run) -> SessionContext {
    let mut sc = SessionConfig::new();
    for (k, v) in &cfg.opts {
        if sc.options_mut().set(k, v).is_err() {
            run.count(&format!("unknown-option:{k}"));
        }
    }
    let ctx = SessionContext::new_with_config(sc);
    let mut rng = Rng::new(cfg.split_seed);
    for t in db {
        let parts = split(&mut rng, t, cfg.split_seed == 0);
        let mt = MemTable::try_new(schema_of(&t.cols), parts).unwrap();
        ctx.register_table(t.name.as_str(), Arc::new(mt)).unwrap();
    }
    ctx
}

async fn exec(ctx: SessionContext, sql: String) -> Result<Rows, String> {
    let fut = async {
        let df = ctx.sql(&sql).await.map_err(|e| e.to_string())?;
        let batches = df.collect().await.map_err(|e| e.to_string())?;
        rows_of_batches(&batches)
    };
    match tokio::time::timeout(Duration::from_secs(60), fut).await {
        Ok(r) => r,
        Err(_) => Err("HANG: no result within 60 s".to_string()),
    }
}

/// the query twice and two other queries, concurrently, in one SessionContext
fn run_config(cfg: &Config, db: &[TableDef], sql: &str, others: &[String], run: &mut Run) -> Vec<Result<Rows, String>> {
    let ctx = make_ctx(cfg, db, run);
    let rt = if cfg.workers == 1 {
        tokio::runtime::Builder::new_current_thread().enable_all().build().unwrap()
    } else {
        tokio::runtime::Builder::new_multi_thread().worker_threads(cfg.workers).enable_all().build().unwrap()
    };
    let sql = sql.to_string();
    let others = others.to_vec();
    let r = hutil::catch(std::panic::AssertUnwindSafe(|| {
        rt.block_on(async {
            let h1 = tokio::spawn(exec(ctx.clone(), sql.clone()));
            let h2 = tokio::spawn(exec(ctx.clone(), sql.clone()));
            let ho: Vec<_> = others.iter().map(|o| tokio::spawn(exec(ctx.clone(), o.clone()))).collect();
            let a = h1.await.unwrap_or_else(|e| Err(format!("PANIC: {e}")));
            let b = h2.await.unwrap_or_else(|e| Err(format!("PANIC: {e}")));
            for h in ho {
                let _ = h.await;
            }
            // and once more, sequentially, after the concurrent runs
            let c = exec(ctx.clone(), sql.clone()).await;
            vec![a, b, c]
        })
    }));
    match r {
        Ok(v) => v,
        Err(p) => vec![Err(format!("PANIC: {p}"))],
    }
}

/// the physical plan a configuration produces for the query (text), for classifying a deviation
fn physical_plan_text(cfg: &Config, db: &[TableDef], sql: &str, run: &mut Run) -> String {
    let ctx = make_ctx(cfg, db, run);
    let rt = tokio::runtime::Builder::new_current_thread().enable_all().build().unwrap();
    rt.block_on(async {
        match ctx.sql(sql).await {
            Ok(df) => match df.create_physical_plan().await {
                Ok(p) => datafusion::physical_plan::displayable(p.as_ref()).indent(false).to_string(),
                Err(e) => format!("ERR {e}"),
            },
            Err(e) => format!("ERR {e}"),
        }
    })
}

fn counts(rows: &[Vec<Val>]) -> BTreeMap<Vec<Val>, usize> {
    let mut m = BTreeMap::new();
    for r in rows {
        *m.entry(r.clone()).or_insert(0) += 1;
    }
    m
}

fn sorted_by(q: &Query, rows: &[Vec<Val>]) -> bool {
    use std::cmp::Ordering::*;
    let cmp = |a: &Vec<Val>, b: &Vec<Val>| {
        for o in &q.order {
            let nf = o.nulls_first.unwrap_or(o.desc);
            let c = match (&a[o.col], &b[o.col]) {
                (Val::Null, Val::Null) => Equal,
                (Val::Null, _) => if nf { Less } else { Greater },
                (_, Val::Null) => if nf { Greater } else { Less },
                (x, y) => {
                    let c = match (x, y) {
                        (Val::Int(_, p), Val::Int(_, q)) => p.cmp(q),
                        (Val::Bool(p), Val::Bool(q)) => p.cmp(q),
                        (Val::Str(p), Val::Str(q)) => p.as_bytes().cmp(q.as_bytes()),
                        _ => Equal,
                    };
                    if o.desc { c.reverse() } else { c }
                }
            };
            if c != Equal {
                return c;
            }
        }
        Equal
    };
    rows.windows(2).all(|w| cmp(&w[0], &w[1]) != Greater)
}

fn same(q: &Query, seq: bool, a: &Result<Rows, String>, b: &Result<Rows, String>) -> Result<(), String> {
    match (a, b) {
        (Ok(ra), Ok(rb)) => {
            if seq {
                if ra != rb {
                    return Err(format!("row sequences differ: {} vs {}", rows_sexp(ra), rows_sexp(rb)));
                }
            } else {
                if counts(ra) != counts(rb) {
                    return Err(format!("row bags differ: {} vs {}", rows_sexp(ra), rows_sexp(rb)));
                }
                if !q.order.is_empty() && !sorted_by(q, rb) {
                    return Err(format!("result not sorted by the ORDER BY key: {}", rows_sexp(rb)));
                }
            }
            Ok(())
        }
        (Err(ea), Err(eb)) if err_class(ea) == err_class(eb) => Ok(()),
        (Err(ea), Err(eb)) => Err(format!("different failures: `{}` vs `{}`", ea.chars().take(200).collect::<String>(), eb.chars().take(200).collect::<String>())),
        (Ok(r), Err(e)) | (Err(e), Ok(r)) => Err(format!("one run returned {} rows, another failed: {}", r.len(), e.chars().take(300).collect::<String>())),
    }
}

fn cfg_text(c: &Config) -> String {
    format!("workers={} split={} {}", c.workers, c.split_seed, c.opts.iter().map(|(k, v)| format!("{}={v}", k.rsplit('.').next().unwrap())).collect::<Vec<_>>().join(","))
}

fn two_stage_cases(run: &mut Run, rng: &mut Rng) {
    let n = run.budget(60, 1500);
    let rt = tokio::runtime::Builder::new_current_thread().enable_all().build().unwrap();
    for _ in 0..n {
        let np = 1 + rng.below(4) as usize;
        let extreme = rng.chance(1, 3);
        let parts: Vec<Vec<Val>> = (0..np)
            .map(|_| {
                let k = rng.below(4) as usize;
                (0..k).map(|_| if extreme { gen_val(rng, Ty::Int(64), 25) } else { gen_small_val(rng, Ty::Int(64), 25) }).collect()
            })
            .collect();
        let f = *rng.pick(&["sum", "min", "max", "count"]);
        let cols = vec![("v".to_string(), Ty::Int(64))];
        let batches: Vec<Vec<arrow::array::RecordBatch>> = parts.iter().map(|p| vec![batch_of(&cols, &p.iter().map(|v| vec![v.clone()]).collect::<Vec<_>>())]).collect();
        let sc = SessionConfig::new().with_target_partitions(np.max(2)).with_batch_size(*rng.pick(&[1usize, 2, 8192]));
        let ctx = SessionContext::new_with_config(sc);
        ctx.register_table("t", Arc::new(MemTable::try_new(schema_of(&cols), batches).unwrap())).unwrap();
        let sql = format!("SELECT {}(v) FROM t", f.to_uppercase());
        let res = rt.block_on(exec(ctx, sql.clone()));
        let ans = match &res {
            Ok(rows) if rows.len() == 1 && rows[0].len() == 1 => format!("ok {}", rows[0][0].sexp()),
            Ok(rows) => format!("shape {}", rows.len()),
            Err(m) => format!("err:{}", err_class(m)),
        };
        let sx = format!("({f} ({}))", parts.iter().map(|p| format!("({})", p.iter().map(|v| v.sexp()).collect::<Vec<_>>().join(" "))).collect::<Vec<_>>().join(" "));
        run.case("twostage", &sx, &ans, np >= 2 && parts.iter().filter(|p| !p.is_empty()).count() >= 2);
        run.count(&format!("twostage:{f}"));
    }
}

pub fn run(run: &mut Run, args: &Args) {
    let mut rng = Rng::new(args.seed);
    hutil::quiet_panics();
    two_stage_cases(run, &mut rng);
    let n_queries = run.budget(60, 400);
    let n_cfg = run.budget(8, 20);
    let mut qi = 0u64;
    let mut attempts = 0u64;
    while qi < n_queries && attempts < n_queries * 5 {
        attempts += 1;
        let db = gen_db(&mut rng, 8);
        let depth = if run.thorough() { 1 + rng.below(3) as u32 } else { 1 + rng.below(2) as u32 };
        let q = {
            let mut qg = QueryGen::new(&db, 0);
            qg.gen_query(&mut rng, depth)
        };
        let seq = !q.order.is_empty() && q.order_is_total();
        if q.limit.is_some() && !seq {
            run.count("skipped:limit-without-total-order");
            continue;
        }
        let others: Vec<String> = (0..2)
            .map(|_| {
                let mut qg = QueryGen::new(&db, 0);
                qg.gen_query(&mut rng, 1).sql()
            })
            .collect();
        qi += 1;
        let sql = q.sql();
        let plan = q.plan();
        let dbs = db_sexp(&db);
        let mut cs = std::collections::BTreeSet::new();
        q.constructs(&mut cs);
        for c in &cs {
            if c.starts_with("join-") || c.contains("subquery") || c.contains("exists") || c.starts_with("group") || c.starts_with("aggregate") || c.contains("union") || c.contains("intersect") || c.contains("except") || c.contains("distinct") || c.contains("limit") || c.contains("order") {
                run.count(&format!("construct:{c}"));
            }
        }
        let structural = cs.iter().any(|c| c.starts_with("join-") || c.contains("subquery") || c.contains("exists") || c.starts_with("group") || c.starts_with("aggregate") || c.contains("union") || c.contains("intersect") || c.contains("except"));
        let mode = if q.order.is_empty() {
            "bag".to_string()
        } else if seq {
            "seq".to_string()
        } else {
            format!("(sorted {})", q.order.iter().map(|o| format!("({} {} {})", o.col, if o.desc { "t" } else { "f" }, if o.nulls_first.unwrap_or(o.desc) { "t" } else { "f" })).collect::<Vec<_>>().join(" "))
        };
        // ---- baseline, then the sampled configurations
        let base_cfg = baseline();
        let base_runs = run_config(&base_cfg, &db, &sql, &others, run);
        let base = base_runs[0].clone();
        if let Err(m) = &base {
            if m.starts_with("HANG") || m.starts_with("PANIC") {
                run.oracle(false, &format!("C02 engine {} baseline :: {sql}", &m[..4]), &format!("{m}; db={dbs}"));
                continue;
            }
            let c = err_class(m);
            run.count(&format!("baseline-err:{c}"));
            if c == "plan" || c == "notimpl" {
                // the engine rejects the query under every configuration: nothing to compare
                qi -= 1;
                continue;
            }
        }
        let mut cfgs = vec![(base_cfg, base_runs)];
        for _ in 0..n_cfg {
            let c = sample_config(&mut rng);
            let r = run_config(&c, &db, &sql, &others, run);
            cfgs.push((c, r));
        }
        let mut deviating: Vec<Result<Rows, String>> = vec![];
        for (c, runs) in &cfgs {
            let mut plan_text: Option<String> = None;
            for (k, r) in runs.iter().enumerate() {
                if let Err(m) = r {
                    if m.starts_with("HANG") || m.starts_with("PANIC") {
                        run.oracle(false, &format!("C02 engine {} :: {sql} :: {}", &m[..4], cfg_text(c)), &format!("{m}; db={dbs}"));
                        continue;
                    }
                }
                let v = same(&q, seq, &base, r);
                let mut sig = format!("C02 result-depends-on-configuration :: {sql} :: {} :: run#{k}", cfg_text(c));
                if v.is_err() {
                    // J1: a sort-merge join whose residual filter is the constant NULL
                    let pt = plan_text.get_or_insert_with(|| physical_plan_text(c, &db, &sql, run));
                    if pt.contains("SortMergeJoinExec") && pt.contains("filter=NULL") {
                        sig = format!("C02 J1 sort-merge-join-with-constant-null-filter :: {sql} :: {} :: run#{k}", cfg_text(c));
                        run.count("finding:J1");
                    } else if pt.contains("SortMergeJoinExec") && matches!(r, Err(m) if m.contains("panicked") && m.contains("index out of bounds")) {
                        // J2: sort_merge_join/filter.rs get_filter_columns indexes past the batch
                        sig = format!("C02 J2 sort-merge-join-filter-panic-index-out-of-bounds :: {sql} :: {} :: run#{k}", cfg_text(c));
                        run.count("finding:J2");
                    }
                }
                run.oracle(v.is_ok(), &sig, &format!("{}; baseline target_partitions=1; db={dbs}", v.clone().err().unwrap_or_default()));
                if v.is_err() && deviating.len() < 3 && !sig.starts_with("C02 J1") && !sig.starts_with("C02 J2") {
                    deviating.push(r.clone());
                }
            }
            run.count(&format!("tp={}", c.opts.iter().find(|(k, _)| k.ends_with("target_partitions")).map(|(_, v)| v.as_str()).unwrap_or("?")));
        }
        run.add("config-runs", cfgs.iter().map(|(_, r)| r.len() as u64).sum());
        // ---- correspondence with the Lean reference
        let impl_sexp = |r: &Result<Rows, String>| match r {
            Ok(rows) => format!("(ok {})", rows_sexp(rows)),
            Err(m) => format!("(err {})", err_class(m)),
        };
        let nontrivial = structural && matches!(&base, Ok(r) if !r.is_empty());
        // (a query the engine fails under EVERY configuration is consistent as far as this property
        //  goes; whether the failure is right is C01's question)
        if base.is_ok() {
            run.case("common", &format!("({mode} {plan} {dbs} {})", impl_sexp(&base)), "ok", nontrivial);
        } else {
            run.count("engine-fails-under-every-configuration");
        }
        for d in &deviating {
            run.case("deviating", &format!("({mode} {plan} {dbs} {})", impl_sexp(d)), "ok", false);
        }
        if qi <= 3 {
            run.note(&format!("sample SQL: {sql}"));
        }
    }
    run.add("queries", qi);
}
