//! C28 — declared orderings, equivalences and partitionings hold on the data.
//! Implementation-level judge: for every node of physical plans built from SQL over sorted and
//! unsorted multi-partition MemTables (declared sort orders, monotonic projections, filters with
//! equalities/constants, joins, aggregates, windows, unions, repartitions) and for every output
//! partition: execute the sub-plan, evaluate every expression that `properties()` mentions on the
//! produced batches, export the key rows, and let the Lean judges decide rows ∈ γ(declared):
//!   `sorted`  every ordering of `equivalence_properties().oeq_class()`
//!   `const`   every `constants()` entry (per partition; across partitions when Uniform)
//!   `eqclass` every class of `eq_group()`
//!   `coloc`   `Partitioning::Hash` co-location across partitions
//! The same four predicates are also evaluated in Rust (oracle, independent code).
use std::sync::Arc;

use arrow::array::{Array, ArrayRef, Int64Array, RecordBatch};
use arrow::compute::cast;
use arrow::datatypes::{DataType, SchemaRef};
use datafusion::datasource::MemTable;
use datafusion::physical_plan::{ExecutionPlan, Partitioning, displayable};
use datafusion::prelude::*;
use datafusion_physical_expr::equivalence::AcrossPartitions;
use datafusion_physical_expr::PhysicalExpr;
use hutil::{Args, Rng, Run};

use crate::c29::{all_paths, exec_node, gen_table, node_at, schema3};

type Key = Vec<Option<i64>>;

/// evaluate `expr` on every batch; `None` if the result is not Int64-castable
fn eval_col(expr: &Arc<dyn PhysicalExpr>, batches: &[RecordBatch]) -> Option<Vec<Option<i64>>> {
    let mut out = vec![];
    for b in batches {
        if b.num_rows() == 0 {
            continue;
        }
        let v = expr.evaluate(b).ok()?;
        let arr: ArrayRef = v.into_array(b.num_rows()).ok()?;
        if !matches!(arr.data_type(), DataType::Int8 | DataType::Int16 | DataType::Int32 | DataType::Int64 | DataType::UInt8 | DataType::UInt16 | DataType::UInt32 | DataType::UInt64 | DataType::Boolean) {
            return None;
        }
        let arr = cast(&arr, &DataType::Int64).ok()?;
        let arr = arr.as_any().downcast_ref::<Int64Array>()?.clone();
        for i in 0..arr.len() {
            out.push(if arr.is_null(i) { None } else { Some(arr.value(i)) });
        }
    }
    Some(out)
}

fn sv(v: &Option<i64>) -> String {
    v.map(|x| x.to_string()).unwrap_or("n".into())
}
fn srow(r: &Key) -> String {
    format!("({})", r.iter().map(sv).collect::<Vec<_>>().join(" "))
}
fn srows(rs: &[Key]) -> String {
    format!("({})", rs.iter().map(srow).collect::<Vec<_>>().join(" "))
}
fn transpose(cols: &[Vec<Option<i64>>]) -> Vec<Key> {
    let n = cols.first().map(|c| c.len()).unwrap_or(0);
    (0..n).map(|i| cols.iter().map(|c| c[i]).collect()).collect()
}

/// Rust-side copy of the comparison (oracle): arrow row order under SortOptions
fn cmp_val(desc: bool, nulls_first: bool, a: Option<i64>, b: Option<i64>) -> std::cmp::Ordering {
    use std::cmp::Ordering::*;
    match (a, b) {
        (None, None) => Equal,
        (None, Some(_)) => if nulls_first { Less } else { Greater },
        (Some(_), None) => if nulls_first { Greater } else { Less },
        (Some(x), Some(y)) => if desc { y.cmp(&x) } else { x.cmp(&y) },
    }
}
fn rows_sorted(opts: &[(bool, bool)], rows: &[Key]) -> bool {
    rows.windows(2).all(|w| {
        for (k, (d, nf)) in opts.iter().enumerate() {
            match cmp_val(*d, *nf, w[0][k], w[1][k]) {
                std::cmp::Ordering::Less => return true,
                std::cmp::Ordering::Greater => return false,
                _ => {}
            }
        }
        true
    })
}

fn sorted_table(rng: &mut Rng, schema: &SchemaRef) -> Vec<Vec<RecordBatch>> {
    // every partition sorted by (a ASC NULLS LAST, c ASC); one batch per partition chunked later by batch_size
    let raw = gen_table(rng, schema, 4);
    raw.into_iter()
        .map(|batches| {
            let mut rows: Vec<(Option<i64>, Option<i64>, i64)> = vec![];
            for b in &batches {
                let a = b.column(0).as_any().downcast_ref::<Int64Array>().unwrap();
                let bb = b.column(1).as_any().downcast_ref::<Int64Array>().unwrap();
                let c = b.column(2).as_any().downcast_ref::<Int64Array>().unwrap();
                for i in 0..b.num_rows() {
                    rows.push((if a.is_null(i) { None } else { Some(a.value(i)) }, if bb.is_null(i) { None } else { Some(bb.value(i)) }, c.value(i)));
                }
            }
            rows.sort_by(|x, y| cmp_val(false, false, x.0, y.0).then(x.2.cmp(&y.2)));
            if rows.is_empty() {
                return vec![];
            }
            // split into 1..2 batches keeping the order
            let cut = rows.len() / 2;
            let mk = |r: &[(Option<i64>, Option<i64>, i64)]| {
                RecordBatch::try_new(
                    Arc::clone(schema),
                    vec![
                        Arc::new(Int64Array::from(r.iter().map(|x| x.0).collect::<Vec<_>>())),
                        Arc::new(Int64Array::from(r.iter().map(|x| x.1).collect::<Vec<_>>())),
                        Arc::new(Int64Array::from(r.iter().map(|x| x.2).collect::<Vec<_>>())),
                    ],
                )
                .unwrap()
            };
            if cut == 0 { vec![mk(&rows)] } else { vec![mk(&rows[..cut]), mk(&rows[cut..])] }
        })
        .collect()
}

fn queries(rng: &mut Rng) -> Vec<String> {
    let k = rng.range(1, 7);
    let v = rng.range(-3, 3);
    vec![
        "SELECT * FROM ts".into(),
        "SELECT a, a + 1 AS a1, c FROM ts".into(),
        "SELECT -a AS na, c FROM ts".into(),
        "SELECT a * 2 AS a2, a - 1 AS am, c FROM ts".into(),
        "SELECT CAST(a AS INT) AS ai, c FROM ts".into(),
        "SELECT abs(a) AS aa, c FROM ts".into(),
        format!("SELECT * FROM ts WHERE a = {v}"),
        format!("SELECT a, b, c FROM ts WHERE a = {v} AND b > 2"),
        "SELECT * FROM ts WHERE a = b".into(),
        "SELECT a, b, c, a AS a_again FROM ts WHERE b = c".into(),
        format!("SELECT * FROM ts LIMIT {k}"),
        "SELECT * FROM ts ORDER BY a".into(),
        "SELECT * FROM ts ORDER BY a, c".into(),
        "SELECT * FROM ts ORDER BY a DESC".into(),
        "SELECT * FROM ts ORDER BY a NULLS FIRST, c DESC".into(),
        format!("SELECT * FROM ts ORDER BY c LIMIT {k}"),
        "SELECT * FROM t1 ORDER BY b, a DESC".into(),
        format!("SELECT * FROM t1 ORDER BY a + 1, c LIMIT {k}"),
        "SELECT a, count(*) AS n, min(c) AS mc FROM ts GROUP BY a".into(),
        "SELECT a, count(*) AS n FROM ts GROUP BY a ORDER BY a".into(),
        "SELECT a, b, sum(c) AS s FROM t1 GROUP BY a, b".into(),
        "SELECT DISTINCT a FROM ts".into(),
        "SELECT a, c, row_number() OVER (ORDER BY a, c) AS rn FROM ts".into(),
        "SELECT a, c, sum(c) OVER (PARTITION BY a ORDER BY c) AS s FROM ts".into(),
        "SELECT a, b, c, rank() OVER (PARTITION BY b ORDER BY c DESC) AS r FROM t1".into(),
        "SELECT a, c, lag(c) OVER (ORDER BY a, c) AS l FROM ts".into(),
        "SELECT * FROM ts UNION ALL SELECT * FROM ts".into(),
        "SELECT * FROM ts UNION ALL SELECT * FROM t1".into(),
        "SELECT * FROM (SELECT * FROM ts UNION ALL SELECT * FROM ts) ORDER BY a, c".into(),
        "SELECT ts.a, ts.c, t1.b FROM ts JOIN t1 ON ts.a = t1.a".into(),
        "SELECT ts.a, ts.c, t1.b FROM ts LEFT JOIN t1 ON ts.a = t1.a".into(),
        "SELECT ts.a, ts.c, t1.b FROM t1 RIGHT JOIN ts ON ts.a = t1.a".into(),
        "SELECT ts.a, t1.a AS a1, ts.c FROM ts JOIN t1 ON ts.a = t1.a AND ts.b = t1.b ORDER BY ts.a".into(),
        "SELECT ts.a, ts.c FROM ts WHERE ts.a IN (SELECT a FROM t1)".into(),
        "SELECT ts.a, ts.c, t1.c AS c1 FROM ts CROSS JOIN t1".into(),
        "SELECT x.a, x.c, y.c AS yc FROM ts x JOIN ts y ON x.a = y.a AND x.c = y.c".into(),
        format!("SELECT a, c FROM (SELECT * FROM ts WHERE a = {v}) ORDER BY c"),
        "SELECT a, max(c) AS m FROM (SELECT * FROM ts ORDER BY a) GROUP BY a ORDER BY a DESC".into(),
        "SELECT a, b FROM t1 WHERE a = 1 UNION ALL SELECT a, b FROM t1 WHERE a = 1".into(),
        "SELECT a, 7 AS seven, c FROM ts".into(),
    ]
}

pub fn run(run: &mut Run, args: &Args) {
    let mut rng = Rng::new(args.seed);
    let rt = tokio::runtime::Builder::new_current_thread().enable_all().build().unwrap();
    let schema = schema3();
    let rounds = run.budget(10, 60);
    for _ in 0..rounds {
        let t1 = gen_table(&mut rng, &schema, 4);
        let ts = sorted_table(&mut rng, &schema);
        let tp = 1 + rng.below(4) as usize;
        let mut cfg = SessionConfig::new().with_target_partitions(tp).with_batch_size(1 + rng.below(8) as usize);
        if rng.chance(1, 2) {
            cfg = cfg.set_bool("datafusion.optimizer.prefer_existing_sort", true);
        }
        if rng.chance(1, 3) {
            cfg = cfg.with_repartition_joins(false);
        }
        let ctx = SessionContext::new_with_config(cfg);
        ctx.register_table("t1", Arc::new(MemTable::try_new(Arc::clone(&schema), t1.clone()).unwrap())).unwrap();
        let sorted = MemTable::try_new(Arc::clone(&schema), ts.clone())
            .unwrap()
            .with_sort_order(vec![vec![col("a").sort(true, false), col("c").sort(true, false)]]);
        ctx.register_table("ts", Arc::new(sorted)).unwrap();

        // end-to-end consequence check: nested ORDER BY where an outer sort may be eliminated on the
        // strength of a declared ordering; the final result must be sorted as requested
        for q in [
            "SELECT * FROM (SELECT * FROM ts ORDER BY a LIMIT 1000) ORDER BY a, c",
            "SELECT a, c FROM (SELECT a, c FROM ts ORDER BY a LIMIT 1000) ORDER BY a, c",
            "SELECT * FROM (SELECT * FROM ts ORDER BY a) ORDER BY a, c",
            "SELECT a, c FROM (SELECT a, c FROM ts WHERE b > -1 ORDER BY a LIMIT 1000) ORDER BY a, c",
        ] {
            if std::env::var("C28_TRACE").is_ok() {
                eprintln!("TRACE e2e q=[{q}] tp={tp}");
            }
            let plan = rt.block_on(async { ctx.sql(q).await.ok()?.create_physical_plan().await.ok() });
            let res = rt.block_on(async {
                match tokio::time::timeout(std::time::Duration::from_secs(6), async { ctx.sql(q).await.ok()?.collect().await.ok() }).await {
                    Ok(r) => r,
                    Err(_) => {
                        None
                    }
                }
            });
            if res.is_none() {
                // not a C28 matter, but never silent: a query that does not finish within 20 s
                run.count("e2e-timeout-or-error");
                if let Some(plan) = &plan {
                    run.note(&format!("e2e query did not finish in 6 s (target_partitions={tp}): {q} :: {}", displayable(plan.as_ref()).indent(false).to_string().replace('\n', " | ")));
                }
            }
            if let (Some(batches), Some(plan)) = (res, plan) {
                let sch = plan.schema();
                let ia = sch.index_of("a").unwrap();
                let ic = sch.index_of("c").unwrap();
                let ea: Arc<dyn PhysicalExpr> = Arc::new(datafusion_physical_expr::expressions::Column::new("a", ia));
                let ec: Arc<dyn PhysicalExpr> = Arc::new(datafusion_physical_expr::expressions::Column::new("c", ic));
                if let (Some(a), Some(c)) = (eval_col(&ea, &batches), eval_col(&ec, &batches)) {
                    let rows = transpose(&[a, c]);
                    let good = rows_sorted(&[(false, false), (false, false)], &rows);
                    run.count("e2e-nested-order-by");
                    let plan_txt = displayable(plan.as_ref()).indent(false).to_string().replace('\n', " | ");
                    run.oracle(good, &format!("e2e-result-not-sorted query=[{q}]"), &format!("result {} is not sorted by (a ASC NULLS LAST, c ASC); plan: {plan_txt}", srows(&rows)));
                }
            }
        }
        for q in queries(&mut rng) {
            let mk = || rt.block_on(async { ctx.sql(&q).await.ok()?.create_physical_plan().await.ok() });
            let Some(root) = mk() else {
                run.count("plan-error");
                continue;
            };
            run.count("plans");
            let mut paths = vec![];
            all_paths(&root, vec![], &mut paths);
            let plan_txt = displayable(root.as_ref()).indent(false).to_string().replace('\n', " | ");
            for path in &paths {
                let node0 = node_at(&root, path);
                let name = node0.name().to_string().replace('(', "-").replace(')', "");
                let nparts = node0.properties().partitioning.partition_count();
                // execute every partition on a fresh plan instance
                let mut per_part: Vec<Vec<RecordBatch>> = vec![];
                let mut ok = true;
                for p in 0..nparts {
                    let Some(fresh) = mk() else { ok = false; break };
                    let node = node_at(&fresh, path);
                    match rt.block_on(exec_node(node, &ctx, Some(p))) {
                        Ok(b) => per_part.push(b),
                        Err(e) => {
                            if e == "timeout" {
                                run.count("exec-timeout");
                            }
                            ok = false;
                            break;
                        }
                    }
                }
                if !ok {
                    run.count("exec-error");
                    continue;
                }
                run.count(&format!("node/{name}"));
                let props = node0.properties();
                let eq = props.equivalence_properties();
                let here = format!("node={name} path={path:?} query=[{q}] plan: {plan_txt}");

                // ---- orderings
                for ordering in eq.oeq_class().iter() {
                    for (p, batches) in per_part.iter().enumerate() {
                        let mut cols = vec![];
                        let mut opts = vec![];
                        for se in ordering.iter() {
                            match eval_col(&se.expr, batches) {
                                Some(c) => {
                                    cols.push(c);
                                    opts.push((se.options.descending, se.options.nulls_first));
                                }
                                None => break, // a prefix of a valid ordering is a valid ordering
                            }
                        }
                        if cols.is_empty() {
                            run.count("ordering/not-exportable");
                            continue;
                        }
                        let rows = transpose(&cols);
                        let os: Vec<String> = opts.iter().map(|(d, n)| format!("({} {})", if *d { "t" } else { "f" }, if *n { "t" } else { "f" })).collect();
                        run.case("sorted", &format!("({name} ({}) {})", os.join(" "), srows(&rows)), "ok", rows.len() >= 2);
                        run.count(&format!("ordering/keys={}", opts.len()));
                        let good = rows_sorted(&opts, &rows);
                        run.oracle(good, &format!("ordering-violated node={name} ordering=[{ordering}]"), &format!("partition {p} rows {} not sorted by {ordering}; {here}", srows(&rows)));
                    }
                }
                // ---- constants
                for c in eq.constants() {
                    let per: Vec<Option<Vec<Option<i64>>>> = per_part.iter().map(|b| eval_col(&c.expr, b)).collect();
                    if per.iter().any(|x| x.is_none()) {
                        run.count("constant/not-exportable");
                        continue;
                    }
                    let per: Vec<Vec<Option<i64>>> = per.into_iter().flatten().collect();
                    let uniform = matches!(c.across_partitions, AcrossPartitions::Uniform(_));
                    let scopes: Vec<Vec<Option<i64>>> = if uniform { vec![per.concat()] } else { per };
                    for vals in scopes {
                        run.case("const", &format!("({name} ({}))", vals.iter().map(sv).collect::<Vec<_>>().join(" ")), "ok", vals.len() >= 2);
                        run.count(if uniform { "constant/uniform" } else { "constant/per-partition" });
                        let good = vals.windows(2).all(|w| w[0] == w[1]);
                        run.oracle(good, &format!("constant-violated node={name} expr=[{}] uniform={uniform}", c.expr), &format!("values {:?}; {here}", vals));
                    }
                }
                // ---- equivalence classes
                for class in eq.eq_group().iter() {
                    for batches in &per_part {
                        let cols: Vec<Vec<Option<i64>>> = class.iter().filter_map(|e| eval_col(e, batches)).collect();
                        if cols.len() < 2 {
                            continue;
                        }
                        let rows = transpose(&cols);
                        run.case("eqclass", &format!("({name} {})", srows(&rows)), "ok", !rows.is_empty());
                        run.count("eqclass");
                        let good = rows.iter().all(|r| r.windows(2).all(|w| w[0] == w[1]));
                        let cls: Vec<String> = class.iter().map(|e| e.to_string()).collect();
                        run.oracle(good, &format!("eqclass-violated node={name} class=[{}]", cls.join(",")), &format!("rows {}; {here}", srows(&rows)));
                    }
                }
                // ---- hash partitioning
                if let Partitioning::Hash(exprs, _) = &props.partitioning {
                    let parts: Vec<Option<Vec<Key>>> = per_part
                        .iter()
                        .map(|b| {
                            let cols: Option<Vec<Vec<Option<i64>>>> = exprs.iter().map(|e| eval_col(e, b)).collect();
                            cols.map(|c| if c.is_empty() { vec![] } else { transpose(&c) })
                        })
                        .collect();
                    if parts.iter().all(|p| p.is_some()) && !exprs.is_empty() {
                        let mut parts: Vec<Vec<Key>> = parts.into_iter().flatten().collect();
                        for p in parts.iter_mut() {
                            p.sort();
                            p.dedup();
                        }
                        run.case("coloc", &format!("({name} ({}))", parts.iter().map(|p| srows(p)).collect::<Vec<_>>().join(" ")), "ok", parts.iter().filter(|p| !p.is_empty()).count() >= 2);
                        run.count("hash-partitioning");
                        let mut good = true;
                        for i in 0..parts.len() {
                            for j in i + 1..parts.len() {
                                if parts[i].iter().any(|k| parts[j].contains(k)) {
                                    good = false;
                                }
                            }
                        }
                        let ks: Vec<String> = exprs.iter().map(|e| e.to_string()).collect();
                        run.oracle(good, &format!("hash-colocation-violated node={name} keys=[{}]", ks.join(",")), &format!("partitions {:?}; {here}", parts));
                    }
                }
            }
        }
    }
    run.note("tables: t1 unsorted, ts sorted per partition by (a ASC NULLS LAST, c ASC) with the sort order declared on the MemTable; 1..4 partitions; target_partitions 1..4, batch_size 1..8, prefer_existing_sort / repartition_joins toggled; 40 SQL templates; every node x every output partition");
}
